package main

import (
	"fmt"
	"sort"
	"strings"

	"golang.org/x/tools/go/ssa"
)

func init() {
	register(&PropRule{
		ID:    "C07",
		Roots: []string{"./router/...", "./pkg/slayers", "./pkg/slayers/path/..."},
		Explain: "Decides the structural clauses of 'only the mutable path state changes': (W1) in the call-graph " +
			"closure of scionPacketProcessor.processPkt (stopping at updateSCIONLayer) the functions that " +
			"store into packet bytes - element stores, copy, append, binary.PutUintN, directly or through a " +
			"parameter-writing callee, destination resolved to a struct field of slice type - are exactly " +
			"Raw.SetInfoField, Raw.SetHopField and Raw.IncPath; every other written byte sequence is a " +
			"named scratch buffer or an array inside a decoded struct; (W2) the router calls SetInfoField / " +
			"SetHopField only with its verified info/hop field and the CURRENT index, and IncPath changes " +
			"only CurrHF/CurrINF; (W3) the only in-place changes to the processor's hop and info field are " +
			"clearing a router-alert flag and InfoField.UpdateSegID(hopField.Mac), which writes SegID " +
			"only; (W4) bit-level round trip of the three codecs that are written back (info field, hop " +
			"field, path meta header): every bit the decoder reads into a member is serialized from that " +
			"same member bit, and the bits no member carries are listed (reserved bits are NOT preserved " +
			"by a write-back: known finding); (W5) updateSCIONLayer, the only re-serialization of the " +
			"whole SCION header, is called from processOHP only, and the packet slice itself " +
			"(Packet.RawPacket) is not re-sliced anywhere in the closure. NOT decided: the one-hop " +
			"completion itself (C10), byte equality of the re-serialized one-hop header.",
		Run: runC07,
	})
	setClaim("C07", claim{
		Text: "Who-writes-packet-bytes over the fast-path closure, current-index pairing, effects on the verified " +
			"fields, bit-level codec round trip.",
		Note: claimNote, Technique: "static analysis: interprocedural byte-writer summaries over the VTA call graph, " +
			"alias/escape analysis of two struct members, bit-provenance extraction of codecs, who-may-call",
		Ref: "DESIGN.md §4 C07"})
	dp := "router/dataplane.go"
	addMutants(
		Mutant{Prop: "C07", Name: "raw-write-traffic-class", File: dp,
			Old: `	p.pkt.egress = egressID
	if disp := p.validateEgressID(); disp != pForward {`, New: `	p.pkt.egress = egressID
	p.pkt.RawPacket[1] &^= 0x0f
	if disp := p.validateEgressID(); disp != pForward {`, Expect: "W1-packet-writers"},
		Mutant{Prop: "C07", Name: "set-info-field-index-zero", File: dp,
			Old: `		p.infoField.UpdateSegID(p.hopField.Mac)
		if err := p.path.SetInfoField(p.infoField, int(p.path.PathMeta.CurrINF)); err != nil {
			return errorDiscard("error", err)
		}
	}
	return pForward
}`, New: `		p.infoField.UpdateSegID(p.hopField.Mac)
		if err := p.path.SetInfoField(p.infoField, 0); err != nil {
			return errorDiscard("error", err)
		}
	}
	return pForward
}`, Expect: "W2-current-index"},
		Mutant{Prop: "C07", Name: "alert-also-clears-other-flag", File: dp,
			Old: `	*alert = false
	if err := p.path.SetHopField(p.hopField, int(p.path.PathMeta.CurrHF)); err != nil {
		return errorDiscard("error", err)
	}
	p.pkt.slowPathRequest = slowPathRequest{
		spType: slowPathRouterAlertIngress,`, New: `	*alert = false
	p.hopField.ExpTime = 0
	if err := p.path.SetHopField(p.hopField, int(p.path.PathMeta.CurrHF)); err != nil {
		return errorDiscard("error", err)
	}
	p.pkt.slowPathRequest = slowPathRequest{
		spType: slowPathRouterAlertIngress,`, Expect: "W3-field-effects"},
		Mutant{Prop: "C07", Name: "segid-update-touches-timestamp", File: "pkg/slayers/path/infofield.go",
			Old: `	inf.SegID = inf.SegID ^ binary.BigEndian.Uint16(hfMac[:2])`,
			New: `	inf.SegID = inf.SegID ^ binary.BigEndian.Uint16(hfMac[:2])
	inf.Timestamp |= 0`, Expect: "W3-field-effects"},
		Mutant{Prop: "C07", Name: "hop-serialize-flags-swapped", File: "pkg/slayers/path/hopfield.go",
			Old: `	if h.EgressRouterAlert {
		b[0] |= 0x1
	}
	if h.IngressRouterAlert {
		b[0] |= 0x2
	}`, New: `	if h.EgressRouterAlert {
		b[0] |= 0x2
	}
	if h.IngressRouterAlert {
		b[0] |= 0x1
	}`, Expect: "W4-codec-roundtrip"},
		Mutant{Prop: "C07", Name: "meta-seglen-mask", File: "pkg/slayers/path/scion/base.go",
			Old: `	line |= uint32(m.SegLen[1]&0x3F) << 6`, New: `	line |= uint32(m.SegLen[1]&0x1F) << 6`, Expect: "W4-codec-roundtrip"},
		Mutant{Prop: "C07", Name: "incpath-resets-seglen", File: "pkg/slayers/path/scion/base.go",
			Old: `	s.PathMeta.CurrHF++
	// Update CurrINF`, New: `	s.PathMeta.CurrHF++
	s.PathMeta.SegLen[2] = 0
	// Update CurrINF`, Expect: "W2-current-index"},
		Mutant{Prop: "C07", Name: "ohp-header-end-rounded", File: dp,
			Old: `	payloadOffset := len(rawPkt) - len(s.LayerPayload())`,
			New: `	payloadOffset := (len(rawPkt) - len(s.LayerPayload())) &^ 3`, Expect: "W5-reserialization"},
		Mutant{Prop: "C07", Name: "scion-layer-rewritten-on-egress", File: dp,
			Old: `	if err := p.path.IncPath(); err != nil {
		// TODO parameter problem invalid path
		return errorDiscard("error", err)
	}
	return pForward
}`, New: `	if err := p.path.IncPath(); err != nil {
		// TODO parameter problem invalid path
		return errorDiscard("error", err)
	}
	if err := updateSCIONLayer(p.pkt.RawPacket, p.scionLayer); err != nil {
		return errorDiscard("error", err)
	}
	return pForward
}`, Expect: "W5-reserialization"},
	)
}

// scratch byte sequences the fast path may write (slice-typed struct fields that
// never alias packet bytes), each with the reason.
var c07Scratch = map[string]string{
	"router.scionPacketProcessor.macInputBuffer": "allocated in newPacketProcessor, input buffer of the MAC computations",
	"pkg/slayers/path/epic.Path.PHVF":            "allocated by epic.Path.DecodeFromBytes, a copy of the packet's PHVF",
	"pkg/slayers/path/epic.Path.LHVF":            "allocated by epic.Path.DecodeFromBytes, a copy of the packet's LHVF",
}

// scratchHoldsOnlyFreshMemory checks the claim behind a c07Scratch entry: every
// store to that struct field anywhere in the loaded module stores freshly
// allocated memory (make / new / a literal), never a slice of something else.
func scratchHoldsOnlyFreshMemory(c *Ctx, rule string) {
	stores := map[string]int{}
	for fn := range c.Prog.AllFuncs() {
		if len(fn.Blocks) == 0 || !inModule(fn) || fn.Pkg == nil {
			continue
		}
		// the packages the border router's forwarding path is built from (the end-host
		// library pkg/snet builds EPIC paths of its own and is not part of it)
		pp := strings.TrimPrefix(fn.Pkg.Pkg.Path(), modPath+"/")
		if !(pp == "router" || strings.HasPrefix(pp, "router/") || pp == "pkg/slayers" || strings.HasPrefix(pp, "pkg/slayers/") ||
			strings.HasPrefix(pp, "pkg/experimental/epic")) {
			continue
		}
		for _, b := range fn.Blocks {
			for _, in := range b.Instrs {
				st, ok := in.(*ssa.Store)
				if !ok {
					continue
				}
				fa, ok := st.Addr.(*ssa.FieldAddr)
				if !ok {
					continue
				}
				name := structFieldName(fa.X, fa.Field)
				if _, isScratch := c07Scratch[name]; !isScratch {
					continue
				}
				stores[name]++
				for _, r := range byteRoots(st.Val) {
					if r.Kind != "local" {
						c.Fail(rule, "scratch:"+name+":aliases", st.Pos(), fmt.Sprintf(
							"%s assigns %s to the scratch buffer %s, which the forwarding path writes", FuncName(fn), r, name))
					}
				}
			}
		}
	}
	var names []string
	for n := range c07Scratch {
		names = append(names, n)
	}
	sort.Strings(names)
	for _, n := range names {
		c.Check(stores[n] >= 1, rule, "scratch:"+n, 0, fmt.Sprintf("%d assignment(s), all of freshly allocated memory (%s)", stores[n], c07Scratch[n]))
	}
}

func runC07(c *Ctx) {
	alertClearedOnlyWhenConsumed(c, "A1-alert-cleared-only-when-consumed")
	bw := NewByteWriters(c)
	root := c.Fn(procT + ".processPkt")
	if root == nil {
		return
	}
	upd := c.Fn("router.updateSCIONLayer")
	cl := bw.Closure(root, func(f *ssa.Function) bool { return f == upd })
	c.Min("processPkt:closure-functions", len(cl), 60)
	// W1
	rule := "W1-packet-writers"
	allowed := map[string]string{
		"(*pkg/slayers/path/scion.Raw).SetInfoField": "pkg/slayers/path/scion.Raw.Raw",
		"(*pkg/slayers/path/scion.Raw).SetHopField":  "pkg/slayers/path/scion.Raw.Raw",
		"(*pkg/slayers/path/scion.Raw).IncPath":      "pkg/slayers/path/scion.Raw.Raw",
	}
	found := map[string]bool{}
	nScratch, nArray := 0, 0
	for _, fn := range cl {
		for _, w := range bw.Resolved(fn) {
			name := FuncName(fn)
			construct := name + ":writes:" + w.Root.String()
			switch w.Root.Kind {
			case "local":
				continue
			case "field":
				if _, ok := c07Scratch[w.Root.Name]; ok {
					nScratch++
					continue
				}
				if w.Root.Array && w.Root.Name != "router.Packet.buffer" {
					// an array inside a (decoded) struct value cannot alias the packet
					nArray++
					continue
				}
				if allowed[name] == w.Root.Name {
					found[name] = true
					continue
				}
				c.Fail(rule, construct, w.Pos, fmt.Sprintf("%s writes bytes of %s (%s); on the forwarding path only "+
					"SetInfoField, SetHopField and IncPath may write packet bytes", name, w.Root.Name, w.How))
			default:
				c.Fail(rule, construct, w.Pos, fmt.Sprintf("%s writes bytes whose origin is %s (%s): not a local buffer, "+
					"not a known scratch buffer", name, w.Root, w.How))
			}
		}
	}
	scratchHoldsOnlyFreshMemory(c, rule)
	var miss []string
	for n := range allowed {
		if !found[n] {
			miss = append(miss, n)
		}
	}
	sort.Strings(miss)
	c.Check(len(miss) == 0, rule, "processPkt:closure:path-state-writers", root.Pos(), fmt.Sprintf(
		"%d functions in the closure; packet bytes are written by SetInfoField, SetHopField, IncPath only "+
			"(%d scratch-buffer writes, %d writes into arrays of decoded structs); missing: %v", len(cl), nScratch, nArray, miss))

	// W2: current index, verified field
	rule = "W2-current-index"
	nInfo, nHop, nInc := 0, 0, 0
	for _, fn := range cl {
		if fn.Pkg == nil || fn.Pkg.Pkg.Path() != modPath+"/router" {
			continue
		}
		v := ViewOf(c, fn)
		for _, ci := range v.Calls("(*pkg/slayers/path/scion.Raw).SetInfoField") {
			nInfo++
			ok := len(ci.Args) == 3 && ci.Args[0] == "recv.path" && ci.Args[1] == "recv.infoField" &&
				ci.Args[2] == "int(recv.path.Base.PathMeta.CurrINF)"
			c.Check(ok, rule, v.Name()+":SetInfoField", ci.In.Pos(), "SetInfoField("+strings.Join(ci.Args, ", ")+
				"); required (recv.path, recv.infoField, int(recv.path.Base.PathMeta.CurrINF))")
		}
		for _, ci := range v.Calls("(*pkg/slayers/path/scion.Raw).SetHopField") {
			nHop++
			ok := len(ci.Args) == 3 && ci.Args[0] == "recv.path" && ci.Args[1] == "recv.hopField" &&
				ci.Args[2] == "int(recv.path.Base.PathMeta.CurrHF)"
			c.Check(ok, rule, v.Name()+":SetHopField", ci.In.Pos(), "SetHopField("+strings.Join(ci.Args, ", ")+
				"); required (recv.path, recv.hopField, int(recv.path.Base.PathMeta.CurrHF))")
		}
		nInc += len(v.Calls("(*pkg/slayers/path/scion.Raw).IncPath"))
	}
	c.Min("closure:SetInfoField-calls", nInfo, 2)
	c.Min("closure:SetHopField-calls", nHop, 2)
	c.Min("closure:IncPath-calls", nInc, 2)
	if v := c.View("(*pkg/slayers/path/scion.Base).IncPath"); v != nil {
		ok := true
		var addrs []string
		for _, st := range v.Stores("*") {
			addrs = append(addrs, st.Addr)
			if st.Addr != "recv.PathMeta.CurrHF" && st.Addr != "recv.PathMeta.CurrINF" && !strings.HasPrefix(st.Addr, "local:") {
				ok = false
			}
		}
		c.Check(ok && len(addrs) >= 2, rule, v.Name()+":stores", v.Fn.Pos(), fmt.Sprintf("stores to %v; only CurrHF and CurrINF may change", uniqSorted(addrs)))
	}
	if v := c.View("(*pkg/slayers/path/scion.Raw).IncPath"); v != nil {
		v.RequireCallArgs(rule, 1, "(*pkg/slayers/path/scion.MetaHdr).SerializeTo", "recv.Base.PathMeta", "recv.Raw*")
	}
	if v := c.View("(*pkg/slayers/path/scion.Raw).SetInfoField"); v != nil {
		off := "((arg1 * 8) + 4)"
		v.RequireCallArgs(rule, 1, "(*pkg/slayers/path.InfoField).SerializeTo", "", "recv.Raw["+off+":("+off+" + 8)]")
	}
	if v := c.View("(*pkg/slayers/path/scion.Raw).SetHopField"); v != nil {
		off := "(((recv.Base.NumINF * 8) + 4) + (arg1 * 12))"
		v.RequireCallArgs(rule, 1, "(*pkg/slayers/path.HopField).SerializeTo", "", "recv.Raw["+off+":("+off+" + 12)]")
	}

	// W3
	rule = "W3-field-effects"
	checkFieldEffects(c, rule, procFieldEffects(c, bw))
	if v := c.View("(*pkg/slayers/path.InfoField).UpdateSegID"); v != nil {
		ok := true
		var addrs []string
		for _, st := range v.Stores("*") {
			if strings.HasPrefix(st.Addr, "recv") {
				addrs = append(addrs, st.Addr)
				ok = ok && st.Addr == "recv.SegID"
			}
		}
		c.Check(ok && len(addrs) == 1, rule, v.Name()+":stores", v.Fn.Pos(), fmt.Sprintf("writes %v; only SegID may change", addrs))
	}

	// W4
	rule = "W4-codec-roundtrip"
	for _, cd := range []struct{ name, typ string; n int }{
		{"info-field", "(*pkg/slayers/path.InfoField)", 8},
		{"hop-field", "(*pkg/slayers/path.HopField)", 12},
		{"path-meta-header", "(*pkg/slayers/path/scion.MetaHdr)", 4},
	} {
		ser, dec := c.Fn(cd.typ+".SerializeTo"), c.Fn(cd.typ+".DecodeFromBytes")
		if ser == nil || dec == nil {
			continue
		}
		enc, n1 := EncoderBits(ser, ser.Params[1], NewSymer())
		dcd, n2 := DecoderBits(dec, dec.Params[1], NewSymer())
		mism, reserved := CompareCodec(enc, dcd, cd.n)
		notes := append(n1, n2...)
		c.Check(len(mism) == 0 && len(notes) == 0 && len(enc) >= 8, rule, cd.name+":member-bits", ser.Pos(), fmt.Sprintf(
			"%d of %d bits are carried by members, each serialized from the member bit it is decoded into; %s",
			len(enc), cd.n*8, strings.Join(append(truncList(mism, 4), notes...), "; ")))
		c.Check(len(reserved) == 0, rule, cd.name+":reserved-bits", ser.Pos(), fmt.Sprintf(
			"bits not carried by any member are overwritten with a constant when the field is written back: %s",
			bitRanges(reserved)))
	}

	// W5
	rule = "W5-reserialization"
	if upd != nil {
		callers := map[string]int{}
		for fn := range c.Prog.AllFuncs() {
			if len(fn.Blocks) == 0 || !inModule(fn) {
				continue
			}
			for _, b := range fn.Blocks {
				for _, in := range b.Instrs {
					if ci, ok := in.(ssa.CallInstruction); ok && ci.Common().StaticCallee() == upd {
						callers[FuncName(fn)]++
						c.Calls++
					}
				}
			}
		}
		ok := len(callers) == 1 && callers[procT+".processOHP"] >= 1
		c.Check(ok, rule, "router.updateSCIONLayer:callers", upd.Pos(), fmt.Sprintf("called from %v; only the one-hop path "+
			"completion may re-serialize the SCION header", callers))
	}
	// the re-serialized SCION header ends exactly where the SCION layer's payload
	// (extension headers included) begins, in the packet it was parsed from
	if v := c.View("router.updateSCIONLayer"); v != nil {
		sers := v.Calls("(*pkg/slayers.SCION).SerializeTo")
		starts := v.Calls("router.newSerializeProxyStart")
		ok := len(sers) == 1 && len(starts) == 1
		detail := fmt.Sprintf("%d SerializeTo, %d newSerializeProxyStart", len(sers), len(starts))
		if ok {
			s := sers[0].Args[0]
			want1 := "(builtin:len(arg0) - builtin:len((*pkg/slayers.SCION).LayerPayload(" + s + ")))"
			want2 := "(builtin:len(arg0) - builtin:len(" + s + ".BaseLayer.Payload))"
			got := starts[0].Args[1]
			ok = starts[0].Args[0] == "arg0" && (got == want1 || got == want2) && sers[0].Args[1] == "local:serBuf" &&
				instrDominates(starts[0].In, sers[0].In)
			detail = "header serialized by " + s + ".SerializeTo into a proxy of " + starts[0].Args[0] + " that starts at " + got +
				"; required len(rawPkt) - len(<that layer's payload>)"
		}
		c.Check(ok, rule, v.Name()+":header-end-is-scion-payload-start", v.Fn.Pos(), detail)
	}
	if v := c.View(procT + ".processOHP"); v != nil {
		v.RequireCallArgs(rule, 2, "router.updateSCIONLayer", "recv.pkt.RawPacket")
		// the layer handed over is the processor's own decoded SCION layer
		okL := true
		for _, ci := range v.Calls("router.updateSCIONLayer") {
			l := v.Leaves(ci.In.Common().Args[1], 1)
			found := false
			for k := range l {
				if k == "recv.scionLayer" || strings.HasPrefix(k, "recv.scionLayer") {
					found = true
				}
			}
			okL = okL && found
		}
		c.Check(okL, rule, v.Name()+":updateSCIONLayer-layer", v.Fn.Pos(), "the layer re-serialized is the processor's decoded scionLayer")
	}
	// the packet slice is never re-sliced or replaced on the forwarding path
	nres := 0
	for _, fn := range cl {
		s := NewSymer()
		for _, b := range fn.Blocks {
			for _, in := range b.Instrs {
				st, ok := in.(*ssa.Store)
				if !ok {
					continue
				}
				fa, ok := st.Addr.(*ssa.FieldAddr)
				if !ok || structFieldName(fa.X, fa.Field) != "router.Packet.RawPacket" {
					continue
				}
				nres++
				c.Fail(rule, FuncName(fn)+":RawPacket-replaced", st.Pos(), "the packet slice is replaced on the forwarding path by "+s.Sym(st.Val))
			}
		}
	}
	if nres == 0 {
		c.OK(rule, "processPkt:closure:RawPacket-never-replaced", root.Pos(), "no store to Packet.RawPacket in the closure (length unchanged)")
	}
}

func uniqSorted(l []string) []string {
	sort.Strings(l)
	var out []string
	for i, s := range l {
		if i == 0 || l[i-1] != s {
			out = append(out, s)
		}
	}
	return out
}

