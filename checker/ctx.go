package main

import (
	"encoding/json"
	"fmt"
	"go/constant"
	"go/token"
	"go/types"
	"os"
	"path/filepath"
	"sort"
	"strings"
	"time"

	"golang.org/x/tools/go/ssa"
)

// Status of an obligation.
type Status int

const (
	Discharged Status = iota
	Violated
	Undecided
)

func (s Status) String() string {
	return [...]string{"discharged", "violated", "undecided"}[s]
}

// Obligation is one thing a rule had to establish, keyed by rule + construct
// (never by line).
type Obligation struct {
	Rule      string `json:"rule"`
	Construct string `json:"construct"`
	Status    string `json:"status"`
	Pos       string `json:"pos,omitempty"`
	Detail    string `json:"detail,omitempty"`
	Known     string `json:"known_finding,omitempty"`
}

// Ctx is the per-run context handed to the rules of one property.
type Ctx struct {
	Prop   string
	Tier   string
	Prog   *Program
	Obs    []Obligation
	Funcs  map[string]bool // functions analysed (names)
	Calls  int             // call sites inspected
	Paths  int             // CFG edges / paths / table cells enumerated
	Cells  int
	Notes  []string
	Assume []string
	seen   map[string]bool
	depth  int // inlining bound for summaries
	cfgTag string // non-default build configuration being analysed
	borrow map[string]string
}

func NewCtx(prop, tier string, prog *Program) *Ctx {
	c := &Ctx{Prop: prop, Tier: tier, Prog: prog, Funcs: map[string]bool{}, seen: map[string]bool{}}
	c.depth = 2
	if tier == "thorough" {
		c.depth = 4
	}
	return c
}

// Borrow runs the rules of another property and keeps, under new names, only the
// obligations of the rules listed (unresolved anchors are always kept). A rule
// is registered under every property whose statement depends on it.
func (c *Ctx) Borrow(run func(*Ctx), rename map[string]string) {
	old := c.borrow
	c.borrow = rename
	run(c)
	c.borrow = old
}

func (c *Ctx) record(rule, construct string, st Status, pos token.Pos, detail string) {
	if c.borrow != nil && rule != "anchor" {
		nr, ok := c.borrow[rule]
		if !ok {
			return
		}
		rule = nr
	}
	if c.cfgTag != "" {
		construct = "[" + c.cfgTag + "]" + construct
	}
	key := rule + "\x00" + construct
	if c.seen[key] {
		// the same construct may be visited twice (e.g. through two callers);
		// keep the worst status.
		for i := range c.Obs {
			if c.Obs[i].Rule == rule && c.Obs[i].Construct == construct {
				if st != Discharged && c.Obs[i].Status == Discharged.String() {
					c.Obs[i].Status = st.String()
					c.Obs[i].Detail = detail
					c.Obs[i].Pos = c.Prog.Pos(pos)
				}
			}
		}
		return
	}
	c.seen[key] = true
	c.Obs = append(c.Obs, Obligation{Rule: rule, Construct: construct, Status: st.String(),
		Pos: c.Prog.Pos(pos), Detail: detail})
}

// OK records a discharged obligation.
func (c *Ctx) OK(rule, construct string, pos token.Pos, detail string) {
	c.record(rule, construct, Discharged, pos, detail)
}

// Fail records a violated obligation.
func (c *Ctx) Fail(rule, construct string, pos token.Pos, detail string) {
	c.record(rule, construct, Violated, pos, detail)
}

// Unknown records an undecided obligation (counts as violated).
func (c *Ctx) Unknown(rule, construct string, pos token.Pos, detail string) {
	c.record(rule, construct, Undecided, pos, detail)
}

// Check records discharged/violated by condition.
func (c *Ctx) Check(ok bool, rule, construct string, pos token.Pos, detail string) bool {
	if ok {
		c.OK(rule, construct, pos, detail)
	} else {
		c.Fail(rule, construct, pos, detail)
	}
	return ok
}

// Fn resolves a function anchor; an unresolved anchor is a violated obligation.
func (c *Ctx) Fn(q string) *ssa.Function {
	fn, err := c.Prog.LookupFunc(q)
	if err != nil || fn == nil || fn.Blocks == nil {
		msg := "no body"
		if err != nil {
			msg = err.Error()
		}
		c.Fail("anchor", q, token.NoPos, msg)
		return nil
	}
	c.Funcs[FuncName(fn)] = true
	return fn
}

// Min asserts that a rule matched at least n constructs.
func (c *Ctx) Min(rule string, got, want int) {
	c.Check(got >= want, "min-instances", rule, token.NoPos,
		fmt.Sprintf("matched %d, frozen minimum %d", got, want))
}

// ---------------------------------------------------------------------------
// Known findings

type KnownFinding struct {
	Property  string `json:"property"`
	Rule      string `json:"rule"`
	Construct string `json:"construct"`
	What      string `json:"what"`
}

type KnownFile struct {
	Findings []KnownFinding `json:"findings"`
	Fixed    []string       `json:"fixed"`
}

func loadKnown(verifDir string) (*KnownFile, error) {
	b, err := os.ReadFile(filepath.Join(verifDir, "known_findings.json"))
	if err != nil {
		if os.IsNotExist(err) {
			return &KnownFile{}, nil
		}
		return nil, err
	}
	var k KnownFile
	if err := json.Unmarshal(b, &k); err != nil {
		return nil, err
	}
	return &k, nil
}

// ---------------------------------------------------------------------------
// Evidence

type Evidence struct {
	PropertyID  string         `json:"property_id"`
	Tier        string         `json:"tier"`
	Seed        int            `json:"seed"`
	Level       string         `json:"level"`
	Coverage    map[string]any `json:"coverage"`
	Assumptions []string       `json:"assumptions"`
	WallS       float64        `json:"wall_s"`
	Violations  int            `json:"violations"`
}

// Finish applies known findings, prints the report, writes the evidence and
// returns the exit code.
func (c *Ctx) Finish(verifDir string, explanation string, t0 time.Time, seed int,
	extra map[string]any) int {

	known, err := loadKnown(verifDir)
	if err != nil {
		fmt.Printf("cannot read known findings: %v\n", err)
		return 2
	}
	usedKnown := map[int]bool{}
	var viol []Obligation
	nDis := 0
	for i := range c.Obs {
		o := &c.Obs[i]
		if o.Status == Discharged.String() {
			nDis++
			continue
		}
		matched := false
		for j, k := range known.Findings {
			if k.Property == c.Prop && k.Rule == o.Rule && k.Construct == o.Construct {
				o.Known = k.What
				usedKnown[j] = true
				matched = true
				break
			}
		}
		if !matched {
			viol = append(viol, *o)
		}
	}
	sort.SliceStable(c.Obs, func(i, j int) bool {
		if c.Obs[i].Rule != c.Obs[j].Rule {
			return c.Obs[i].Rule < c.Obs[j].Rule
		}
		return c.Obs[i].Construct < c.Obs[j].Construct
	})
	// report
	byRule := map[string][2]int{}
	for _, o := range c.Obs {
		v := byRule[o.Rule]
		v[0]++
		if o.Status == Discharged.String() {
			v[1]++
		}
		byRule[o.Rule] = v
	}
	var rules []string
	for r := range byRule {
		rules = append(rules, r)
	}
	sort.Strings(rules)
	fmt.Printf("property %s tier %s: %d obligations, %d discharged, %d functions, %d call sites\n",
		c.Prop, c.Tier, len(c.Obs), nDis, len(c.Funcs), c.Calls)
	for _, r := range rules {
		fmt.Printf("  rule %-34s %3d/%-3d discharged\n", r, byRule[r][1], byRule[r][0])
	}
	for _, o := range c.Obs {
		if o.Known != "" {
			fmt.Printf("KNOWN-FINDING: property=%s %s [%s %s at %s]\n", c.Prop, o.Known, o.Rule,
				o.Construct, o.Pos)
		}
	}
	for j, k := range known.Findings {
		if k.Property == c.Prop && !usedKnown[j] {
			fmt.Printf("note: known finding no longer reproduces: %s %s (%s)\n", k.Rule,
				k.Construct, k.What)
		}
	}
	replayDir := filepath.Join(verifDir, "evidence", "replay")
	exit := 0
	if len(viol) > 0 {
		exit = 1
		_ = os.MkdirAll(replayDir, 0o755)
		for i, o := range viol {
			path := filepath.Join(replayDir, fmt.Sprintf("%s-%d.json", c.Prop, i))
			b, _ := json.MarshalIndent(o, "", " ")
			_ = os.WriteFile(path, b, 0o644)
			fmt.Printf("  %s: rule=%s construct=%s at %s: %s\n", strings.ToUpper(o.Status),
				o.Rule, o.Construct, o.Pos, o.Detail)
			fmt.Printf("VIOLATION property=%s replay=%s\n", c.Prop, path)
		}
	}
	// evidence
	distinct := map[string]bool{}
	for _, o := range c.Obs {
		distinct[o.Construct] = true
	}
	var samples []Obligation
	step := 1
	if len(c.Obs) > 12 {
		step = len(c.Obs) / 12
	}
	for i := 0; i < len(c.Obs); i += step {
		samples = append(samples, c.Obs[i])
	}
	for _, o := range c.Obs {
		if o.Status != Discharged.String() {
			samples = append(samples, o)
		}
	}
	var fns []string
	for f := range c.Funcs {
		fns = append(fns, f)
	}
	sort.Strings(fns)
	cov := map[string]any{
		"explanation":         explanation,
		"obligations":         len(c.Obs),
		"discharged":          nDis,
		"evaluations":         len(c.Obs),
		"distinct_nontrivial": len(distinct),
		"rule": "one obligation per (rule, construct) produced by the property's rule table on " +
			"the SSA form of /repo's working tree; distinct = distinct constructs",
		"samples":            samples,
		"functions_analysed": fns,
		"call_sites":         c.Calls,
		"paths_enumerated":   c.Paths,
		"table_cells":        c.Cells,
		"rules":              byRule,
		"packages_loaded":    len(c.Prog.Pkgs),
		"load_s":             c.Prog.LoadSecs,
		"checker_cmd":        strings.Join(os.Args, " "),
		"trusted_base": []string{"go/types, go/ssa, callgraph/vta of golang.org/x/tools v0.50.0",
			"go1.26.8 front end", "hand-confirmed rule tables in /verif/checker/rules_*.go"},
		"notes": c.Notes,
	}
	// what the analysed functions rely on but no rule looked into: module
	// functions they call directly (observers and error constructors aside)
	cov["callees_not_analysed"] = c.calleesNotAnalysed()
	for k, v := range extra {
		cov[k] = v
	}
	ev := Evidence{PropertyID: c.Prop, Tier: c.Tier, Seed: seed, Level: "other", Coverage: cov,
		Assumptions: append([]string{
			"third-party and standard-library callees are atoms with their documented meaning",
			"reflection, unsafe and cgo are not modelled"}, c.Assume...),
		WallS: time.Since(t0).Seconds(), Violations: len(viol)}
	b, _ := json.MarshalIndent(ev, "", " ")
	_ = os.MkdirAll(filepath.Join(verifDir, "evidence"), 0o755)
	if err := os.WriteFile(filepath.Join(verifDir, "evidence", c.Prop+".json"), b, 0o644); err != nil {
		fmt.Printf("cannot write evidence: %v\n", err)
		return 2
	}
	if exit == 0 {
		fmt.Printf("OK property=%s\n", c.Prop)
	}
	return exit
}

// FinishNoEvidence prints violations only (used for mutant runs).
func (c *Ctx) FinishNoEvidence(verifDir string) int {
	known, _ := loadKnown(verifDir)
	exit := 0
	for _, o := range c.Obs {
		if o.Status == Discharged.String() {
			continue
		}
		isKnown := false
		if known != nil {
			for _, k := range known.Findings {
				if k.Property == c.Prop && k.Rule == o.Rule && k.Construct == o.Construct {
					isKnown = true
				}
			}
		}
		if isKnown {
			continue
		}
		exit = 1
		fmt.Printf("  %s: rule=%s construct=%s at %s: %s\n", strings.ToUpper(o.Status), o.Rule,
			o.Construct, o.Pos, o.Detail)
	}
	return exit
}

// Const resolves a package-level constant "pkg/rel.Name" and renders it the way
// Sym renders constants of that type.
func (c *Ctx) Const(q string) string {
	pkgRel, name, ok := splitQual(q)
	if ok {
		if p := c.Prog.Pkgs[modPath+"/"+pkgRel]; p != nil {
			if obj, ok := p.Types.Scope().Lookup(name).(*types.Const); ok {
				v := obj.Val().ExactString()
				if obj.Val().Kind() == constant.String {
					v = obj.Val().String()
				}
				if _, named := obj.Type().(*types.Named); named {
					return v + ":" + typeShort(obj.Type())
				}
				return v
			}
		}
	}
	c.Fail("anchor", "const:"+q, token.NoPos, "constant not found")
	return "<unresolved:" + q + ">"
}
