package main

import (
	"fmt"
	"go/types"
	"sort"
	"strings"
)

// C25, what the validators trust: validateASEntry, shouldIgnore and
// PropagationInterfaces decide on intf.TopoInfo().LinkType and .IA. Those come
// from the topology, which can be reloaded while the service runs
// (Interfaces.Update -> Interface.updateTopoInfo for interfaces that survive).
// A reload that leaves the link type or the neighbour of a surviving interface
// at its old value makes every later decision on that interface a decision on a
// link that no longer exists.
//
// Rule U1: after updateTopoInfo every member of the stored InterfaceInfo except
// RemoteID (learned from the neighbour, deliberately kept) is the member of the
// same name of the new info. Whole-value assignment and member-by-member
// assignment are both accepted.
func init() {
	addMutants(
		Mutant{Prop: "C25", Name: "reload-keeps-link-type", File: "control/ifstate/ifstate.go",
			Old: `	topoInfo.RemoteID = intf.topoInfo.RemoteID
`, New: `	topoInfo.RemoteID = intf.topoInfo.RemoteID
	topoInfo.LinkType = intf.topoInfo.LinkType
`, Expect: "U1-reload-replaces-link-attributes"},
		Mutant{Prop: "C25", Name: "benign-reload-member-by-member", File: "control/ifstate/ifstate.go", Benign: true,
			Old: `	topoInfo.RemoteID = intf.topoInfo.RemoteID
	intf.topoInfo = topoInfo
`, New: `	intf.topoInfo.ID = topoInfo.ID
	intf.topoInfo.IA = topoInfo.IA
	intf.topoInfo.LinkType = topoInfo.LinkType
	intf.topoInfo.InternalAddr = topoInfo.InternalAddr
	intf.topoInfo.MTU = topoInfo.MTU
`},
	)
}

func c25TopologyReload(c *Ctx) {
	rule := "U1-reload-replaces-link-attributes"
	v := c.View("(*control/ifstate.Interface).updateTopoInfo")
	if v == nil {
		return
	}
	// members of InterfaceInfo
	var members []string
	if fa := v.Fn.Params[1].Type().Underlying(); fa != nil {
		if st, ok := fa.(*types.Struct); ok {
			for i := 0; i < st.NumFields(); i++ {
				members = append(members, st.Field(i).Name())
			}
		}
	}
	c.Min("InterfaceInfo-members", len(members), 5)
	// straight-line only: all stores in one block
	blocks := map[int]bool{}
	for _, st := range v.Stores("*") {
		blocks[st.In.Block().Index] = true
	}
	if len(blocks) > 1 {
		c.Unknown(rule, v.Name()+":members", v.Fn.Pos(), "stores in several blocks: the member-wise summary of this rule does not apply")
		return
	}
	// symbolic state, in program order
	local := map[string]string{} // member of the local copy of the argument -> source
	stored := map[string]string{}
	for _, m := range members {
		stored[m] = "recv.topoInfo." + m
	}
	localIsArg := false
	norm := func(val string) string {
		if localIsArg && strings.HasPrefix(val, "local:topoInfo.") {
			m := strings.TrimPrefix(val, "local:topoInfo.")
			if s, ok := local[m]; ok {
				return s
			}
			return "arg0." + m
		}
		return val
	}
	for _, st := range v.Stores("*") {
		switch {
		case st.Addr == "local:topoInfo" && st.Val == "arg0":
			localIsArg = true
		case strings.HasPrefix(st.Addr, "local:topoInfo."):
			local[strings.TrimPrefix(st.Addr, "local:topoInfo.")] = norm(st.Val)
		case st.Addr == "recv.topoInfo":
			for _, m := range members {
				switch {
				case st.Val == "arg0":
					stored[m] = "arg0." + m
				case st.Val == "local:topoInfo" && localIsArg:
					stored[m] = norm("local:topoInfo." + m)
				default:
					stored[m] = st.Val + "." + m
				}
			}
		case strings.HasPrefix(st.Addr, "recv.topoInfo."):
			stored[strings.TrimPrefix(st.Addr, "recv.topoInfo.")] = norm(st.Val)
		}
	}
	var bad []string
	for _, m := range members {
		if m == "RemoteID" {
			continue
		}
		if stored[m] != "arg0."+m {
			bad = append(bad, fmt.Sprintf("%s <- %s", m, stored[m]))
		}
	}
	sort.Strings(bad)
	c.Check(len(bad) == 0, rule, v.Name()+":members", v.Fn.Pos(), fmt.Sprintf(
		"%d members; every member but RemoteID is taken from the new topology information: %s", len(members), strings.Join(bad, "; ")))
	// Update hands the new info of the same interface id
	if uv := c.View("(*control/ifstate.Interfaces).Update"); uv != nil {
		n := len(uv.Calls("(*control/ifstate.Interface).updateTopoInfo"))
		c.Check(n == 1, rule, uv.Name()+":surviving-interfaces-updated", uv.Fn.Pos(), fmt.Sprintf("%d call(s) of updateTopoInfo", n))
	}
}
