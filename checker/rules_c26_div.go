package main

import (
	"fmt"
	"strings"

	"golang.org/x/tools/go/ssa"
)

// Beacon.Diversity(other) counts the links of the beacon that do not appear in
// the other one, a link being the PAIR (AS, egress interface): interface ids are
// unique per AS only. Structure decided: an entry of the beacon counts as found
// only behind BOTH equalities (IA and interface) with one and the same entry of
// the other beacon; the scan covers every entry of the other beacon (it is left
// early only on a match); the counter grows by one exactly for entries that were
// not found; link() returns the entry's own AS and its hop field's egress.
func c26Diversity(c *Ctx) {
	v := c.View("(control/beacon.Beacon).Diversity")
	if v == nil {
		return
	}
	rule := "D1-diversity-counts-links"
	fn := v.Fn
	// link()
	if lv := c.View("control/beacon.link"); lv != nil {
		ok, n := true, 0
		for _, b := range lv.Fn.Blocks {
			if r, isRet := b.Instrs[len(b.Instrs)-1].(*ssa.Return); isRet {
				n++
				ok = ok && len(r.Results) == 2 && strings.HasSuffix(lv.S.Sym(r.Results[0]), ".Local") &&
					strings.HasSuffix(lv.S.Sym(r.Results[1]), ".HopEntry.HopField.ConsEgress") &&
					strings.HasPrefix(lv.S.Sym(r.Results[0]), strings.TrimSuffix(lv.S.Sym(r.Results[1]), ".HopEntry.HopField.ConsEgress"))
			}
		}
		c.Check(ok && n == 1, rule, lv.Name()+":link", lv.Fn.Pos(), "a link is (entry.Local, entry.HopEntry.HopField.ConsEgress) of one entry")
	}
	mine := "control/beacon.link(recv.Segment.ASEntries[*])"
	theirs := "control/beacon.link(arg0.Segment.ASEntries[*])"
	sameIA := func(s string) bool {
		return wild("+true((pkg/addr.IA).Equal("+mine+"#0, "+theirs+"#0))", s) || wild("+true((pkg/addr.IA).Equal("+theirs+"#0, "+mine+"#0))", s)
	}
	sameIf := func(s string) bool {
		return wild("+eq("+mine+"#1, "+theirs+"#1)", s) || wild("+eq("+theirs+"#1, "+mine+"#1)", s)
	}
	// the "found" flag: a bool phi with a constant true edge
	var found *ssa.Phi
	for _, b := range fn.Blocks {
		for _, in := range b.Instrs {
			phi, ok := in.(*ssa.Phi)
			if !ok || !isBool(phi.Type()) {
				continue
			}
			for _, e := range phi.Edges {
				if k, isK := constBool(e); isK && k {
					found = phi
				}
			}
		}
	}
	if !c.Check(found != nil, rule, v.Name()+":found-flag", fn.Pos(), "a per-entry flag that becomes true on a match") {
		return
	}
	okMatch := true
	for i, e := range found.Edges {
		k, isK := constBool(e)
		if !isK {
			okMatch = false
			continue
		}
		pred := found.Block().Preds[i]
		lits := append(dominatingLits(pred), litsOnEdge(pred, found.Block())...)
		ia, ifc := false, false
		for _, l := range lits {
			s := l.String(v.S)
			ia = ia || sameIA(s)
			ifc = ifc || sameIf(s)
		}
		if k && !(ia && ifc) {
			okMatch = false
			c.Fail(rule, v.Name()+":match-needs-both", fn.Pos(), fmt.Sprintf(
				"an entry counts as found without both the AS and the interface being equal to those of one entry of the other beacon (AS: %v, interface: %v)", ia, ifc))
		}
		if !k {
			// "not found" is concluded only when the scan of the other beacon ran to its end
			end := false
			for _, l := range lits {
				if wild("-lt(*, builtin:len(arg0.Segment.ASEntries))", l.String(v.S)) {
					end = true
				}
			}
			if !end {
				okMatch = false
				c.Fail(rule, v.Name()+":scan-complete", fn.Pos(), "an entry counts as not found before every entry of the other beacon was compared")
			}
		}
	}
	if okMatch {
		c.OK(rule, v.Name()+":match-needs-both", fn.Pos(), "found only behind IA.Equal and interface equality with the same entry; not found only after the whole scan")
	}
	// the counter: +1 exactly behind !found, returned
	okCnt, nInc := true, 0
	for _, b := range fn.Blocks {
		for _, in := range b.Instrs {
			bo, ok := in.(*ssa.BinOp)
			if !ok || bo.Op.String() != "+" || !cyclic(b) {
				continue
			}
			if k, isK := foldInt(bo.Y); !isK || k != 1 {
				continue
			}
			if phi, isPhi := bo.X.(*ssa.Phi); !isPhi || phi.Comment == "rangeindex" {
				continue
			}
			// is this the counter (flows to the return)?
			isCounter := false
			for _, rb := range fn.Blocks {
				if r, isRet := rb.Instrs[len(rb.Instrs)-1].(*ssa.Return); isRet && dependsOn(r.Results[0], bo) {
					isCounter = true
				}
			}
			if !isCounter {
				continue
			}
			nInc++
			behind := false
			for _, l := range dominatingLits(b) {
				if l.Kind == "true" && !l.Pos && l.X == ssa.Value(found) {
					behind = true
				}
			}
			okCnt = okCnt && behind
		}
	}
	c.Check(okCnt && nInc == 1, rule, v.Name()+":counts-unmatched", fn.Pos(), fmt.Sprintf(
		"%d increment(s) of the returned counter, each exactly where the entry was not found", nInc))
}
