package main

// Clauses added in the fifth seed round, batches B (late) and C, and with the two defects
// repaired in the last session (DESIGN.md 0.3, 0.7).
func init() {
	for k, v := range map[string][]string{
		"C16": {"(B1) the router decodes every BFD packet into one reusable layer; its optional authentication header is cleared on every path before DecodeFromBytes (gopacket assigns it only when the Auth bit is set), in processBFD or unconditionally in the per-packet reset() that every static call chain into processBFD runs first: one packet with an authentication section cannot make the processor discard the peer's later packets.",
			"(P1) bfdSend.Send returns its pooled packet on every path (C14's single-owner typestate, borrowed)."},
		"C22": {"(R4) in scionPacketProcessor.process the ingress SegID update dominates every call of a processor method that can request the slow path (stores a slowPathRequest itself or through same-package callees): prepareSCMP undoes exactly that update when the answer leaves through the link the packet came from, so an SCMP answer raised earlier would leave with a desynchronized accumulator."},
		"C11": {"(M1) the decided address and port reach the wire with the packet they were decided for: in udpConnection.send, before WriteBatch(msgs[:n]) a complete loop over pkts[:n] - the same n - stores pkts[i].RawPacket into msgs[i].Buffers[0] and nil or pkts[i].RemoteAddr into msgs[i].Addr, for every i, also after a partial write shifted the batch. Only this rebuild-everything form is recognised; another scheme is reported as undecided."},
		"C26": {"(O2) the selector the control service installs (chainsAvailableAlgo) hands the inner selector the verifiable candidates in input order: the slice starts empty, grows at one append of the loop element reached only behind VerifySegment(element's segment) == nil and from every such edge, the input slice is not written, the result size is handed on unchanged."},
		"C17": {"(F1, hop 5 extended) direct socket-option writes in private/underlay/conn are tied to the sizes as well: SO_SNDBUF / SO_SNDBUFFORCE take the send size, SO_RCVBUF / SO_RCVBUFFORCE the receive size (Linux option numbers 7/32 and 8/33 at SOL_SOCKET); a non-constant option is reported."},
		"C05": {"(X1) the path-position helpers parsePath and ingressInterface trust (CurrINFMatchesCurrHF, IsFirstHopAfterXover, IsXover, infIndexForHF) have their specified definitions / decision tables (C19 X1-boundaries, borrowed)."},
		"C13": {"(H1) 'penultimate' and 'last' hop are what Raw.IsPenultimateHop / IsLastHop are specified to be (C19 X1-boundaries, borrowed): a segment change on a peering link is not a cross-over."},
		"C15": {"(Z1) the SCMP answer for a down link is sized with ScmpHeaderSize(type) = 4 + the bytes the message layer prepends, for every type (C09 T1, borrowed): an under-reported size lets the answer for a long path run off the headroom, and it is never sent."},
		"C41": {"(N1, predicate form) a same-package func([]byte) bool called on e.pkt counts as the validation when every path through it that returns true has passed the complete IPv4 or IPv6 validation of its parameter."},
	} {
		extraExplain[k] = append(extraExplain[k], v...)
	}
}

func init() {
	extraExplain["C36"] = append(extraExplain["C36"], "(Q2) 'every chain valid now' is the answer of the trust database's Chains query: its validity bounds are bound in UTC, like the stored values they are compared with as text (shared with C24).")
}

func init() {
	for k, v := range map[string][]string{
		"C07": {"(D2) the one-hop path object is recycled from packet to packet: onehop.Path.DecodeFromBytes reaches a successful return only after decoding Info, FirstHop and SecondHop, so nothing of the previous packet is serialized into this one."},
		"C12": {"(D2) onehop.Path.DecodeFromBytes overwrites all three members on every successful return (shared with C07)."},
		"C19": {"(D2) Decoded.DecodeFromBytes leaves InfoFields / HopFields with exactly NumINF / NumHops elements on every successful return (a fresh make or an exact re-slice): what SerializeTo iterates is what the meta header describes, also when the object is reused for a shorter path."},
		"C27": {"(E1) every statement of the path database that writes the MaxExpiry column - first insert and update of an existing row - binds the segment's MaxExpiry() in seconds, and the clean-up compares the column with a time in seconds: the same abstract state leaves the same row whichever history produced it."},
		"C38": {"(A1, engine E9) the wire and the Go enumeration of signature algorithms are translated by exact inverse tables on the three supported algorithms, and every other value - the unset wire value 0 included - maps to unknown / unspecified: the parameter is only compared with constants, and the function is folded at each of them, at 0 and at one value outside."},
		"C48": {"(W1) the gateway's consumer keeps up to 32 entries that have left the ring in a batch buffer; only pktRing.Read writes that buffer (stores, clear, copy), it hands out entries[0] and keeps entries[1:], and Close only closes the ring: entries written before closure are still returned before closure is reported."},
	} {
		extraExplain[k] = append(extraExplain[k], v...)
	}
}
