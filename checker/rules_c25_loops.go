package main

import (
	"fmt"
	"strings"

	"golang.org/x/tools/go/ssa"
)

// C25, the leaves of the loop filter (FilterLoop -> filterLoops is decided in G3;
// this is what those calls compute):
//
//	buildHops      one hop per AS entry, in order, the entry's Local ISD-AS
//	filterAsLoop   walks every hop; a hop whose ISD-AS was seen before is returned
//	               (the loop); every other hop is recorded as seen
//	filterIsdLoop  walks every hop; a hop is skipped only if its ISD equals the ISD
//	               of the hop before it (staying in an ISD is no loop); otherwise an
//	               ISD seen before is returned, else it is recorded and remembered
//	               as the previous ISD
func init() {
	addMutants(
		Mutant{Prop: "C25", Name: "as-loop-first-hop-never-recorded", File: "control/beacon/policy.go",
			Old: `		if _, ok := seen[ia]; ok {
			return ia
		}
		seen[ia] = struct{}{}`, New: `		if _, ok := seen[ia]; ok {
			return ia
		}
		if len(seen) > 0 || len(hops) < 3 {
			seen[ia] = struct{}{}
		}`, Expect: "L1-loop-detectors"},
		Mutant{Prop: "C25", Name: "isd-loop-previous-isd-not-updated", File: "control/beacon/policy.go",
			Old: `		last = ia.ISD()
		seen[ia.ISD()] = struct{}{}`, New: `		if last == 0 {
			last = ia.ISD()
		}
		seen[ia.ISD()] = struct{}{}`, Expect: "L1-loop-detectors"},
		Mutant{Prop: "C25", Name: "hops-skip-origin", File: "control/beacon/policy.go",
			Old: `	for _, asEntry := range beacon.Segment.ASEntries {
		hops = append(hops, asEntry.Local)
	}`, New: `	for i, asEntry := range beacon.Segment.ASEntries {
		if i == 0 && len(beacon.Segment.ASEntries) > 1 {
			continue
		}
		hops = append(hops, asEntry.Local)
	}`, Expect: "L1-loop-detectors"},
	)
}

func c25LoopDetectors(c *Ctx) {
	rule := "L1-loop-detectors"
	pk := "control/beacon."
	if v := c.View(pk + "buildHops"); v != nil {
		why := orderPreservingMap(v, "arg0.Segment.ASEntries")
		okLocal := false
		for _, st := range v.Stores("local:varargs[0]") {
			okLocal = wild("arg0.Segment.ASEntries[*].Local", st.Val) || wild("local:asEntry.Local", st.Val)
		}
		every := false
		for _, ci := range v.Calls("builtin:append") {
			passes, inLoop := everyIterationPasses(ci.In.(ssa.Instruction).Block())
			every = passes && inLoop
		}
		c.Check(why == "" && okLocal && every, rule, v.Name()+":one-hop-per-entry", v.Fn.Pos(),
			fmt.Sprintf("one appended hop per AS entry, in order, the entry's Local ISD-AS; %s; every iteration appends: %v", why, every))
	}
	seenWalk := func(q, keyPat, retPat string, skipAllowed bool) {
		v := c.View(q)
		if v == nil {
			return
		}
		fn := v.Fn
		var lookups []*ssa.Lookup
		var updates []*ssa.MapUpdate
		okIdx := false
		for _, b := range fn.Blocks {
			for _, in := range b.Instrs {
				switch x := in.(type) {
				case *ssa.Lookup:
					if x.CommaOk {
						lookups = append(lookups, x)
					}
				case *ssa.MapUpdate:
					updates = append(updates, x)
				case *ssa.IndexAddr:
					if v.S.Sym(x.X) == "arg0" {
						okIdx = okIdx || loopIndex(x.Index, 0, 1)
					}
				case *ssa.Index:
					if v.S.Sym(x.X) == "arg0" {
						okIdx = okIdx || loopIndex(x.Index, 0, 1)
					}
				}
			}
		}
		c.Check(okIdx, rule, v.Name()+":every-hop", fn.Pos(), "the walk runs over every hop from index 0 in steps of 1")
		if !c.Check(len(lookups) == 1 && len(updates) == 1, rule, v.Name()+":one-seen-set", fn.Pos(),
			fmt.Sprintf("%d lookup(s) and %d update(s) of the seen set", len(lookups), len(updates))) {
			return
		}
		lk, up := lookups[0], updates[0]
		key := v.S.Sym(lk.Index)
		c.Check(wild(keyPat, key) && v.S.Sym(up.Key) == key && lk.X == up.Map, rule, v.Name()+":seen-key", lk.Pos(),
			"looked up and recorded under the same key, the hop's identifier: "+key+" / "+v.S.Sym(up.Key))
		// found -> returned; not found -> recorded, unconditionally
		lb := lk.Block()
		var found, notFound *ssa.BasicBlock
		if iff, ok := lb.Instrs[len(lb.Instrs)-1].(*ssa.If); ok {
			if ex, isEx := iff.Cond.(*ssa.Extract); isEx && ex.Tuple == ssa.Value(lk) && ex.Index == 1 {
				found, notFound = lb.Succs[0], lb.Succs[1]
			}
		}
		okFound := false
		if found != nil {
			if r, ok := found.Instrs[len(found.Instrs)-1].(*ssa.Return); ok && len(r.Results) == 1 {
				okFound = wild(retPat, v.S.Sym(r.Results[0]))
			}
		}
		c.Check(okFound, rule, v.Name()+":seen-before-is-reported", lk.Pos(), "a hop whose identifier was seen before is returned as the loop")
		// from the not-found edge no way round the loop avoids the recording block
		recorded := notFound != nil
		if h := loopHeaderOf(lb); recorded && h != nil {
			recorded = !cfgReach(notFound, h, up.Block())
		} else {
			recorded = false
		}
		c.Check(recorded, rule, v.Name()+":unseen-is-recorded", up.Pos(),
			"a hop not seen before is recorded, on every such iteration")
		// and the lookup itself is reached on every iteration, except over the permitted skip edge
		if !skipAllowed {
			passes, inLoop := everyIterationPasses(lb)
			c.Check(passes && inLoop, rule, v.Name()+":every-hop-looked-up", lk.Pos(), "no way round the loop avoids the lookup")
		}
		// what may skip an iteration before the lookup
		var skips []string
		for _, l := range dominatingLits(lb) {
			s := l.String(v.S)
			if strings.Contains(s, "builtin:len(arg0)") {
				continue
			}
			skips = append(skips, s)
		}
		if !skipAllowed {
			c.Check(len(skips) == 0, rule, v.Name()+":no-hop-skipped", lk.Pos(), fmt.Sprintf("conditions before the lookup: %v", skips))
			return
		}
		// exactly: ISD(hop) != previous ISD, where previous = phi(0 | ISD(hop) of the last recorded iteration)
		okSkip := len(skips) == 1 && wild("-eq((pkg/addr.IA).ISD(arg0[*]), phi(*))", skips[0])
		okPrev := false
		for _, b := range fn.Blocks {
			for _, in := range b.Instrs {
				phi, ok := in.(*ssa.Phi)
				if !ok || typeShort(phi.Type()) != "pkg/addr.ISD" {
					continue
				}
				// every edge is: the zero start, the phi itself (skipped iteration), or ISD(hop) coming from the recording block
				good := true
				rec := false
				for k, e := range phi.Edges {
					pred := phi.Block().Preds[k]
					switch {
					case e == ssa.Value(phi):
					case isZeroConst(e):
					case wild("(pkg/addr.IA).ISD(arg0[*])", v.S.Sym(e)) && (pred == up.Block() || up.Block().Dominates(pred)):
						rec = true
					default:
						good = false
					}
				}
				okPrev = okPrev || (good && rec)
			}
		}
		if sb := lb.Idom(); sb != nil {
			passes, inLoop := everyIterationPasses(sb)
			okSkip = okSkip && passes && inLoop && len(lb.Preds) == 1 && lb.Preds[0] == sb
		}
		c.Check(okSkip && okPrev, rule, v.Name()+":skip-only-within-an-isd", lk.Pos(), fmt.Sprintf(
			"a hop is skipped only if its ISD equals the previous hop's (conditions: %v); the previous ISD is updated whenever a hop is recorded: %v", skips, okPrev))
	}
	seenWalk(pk+"filterAsLoop", "arg0[*]", "arg0[*]", false)
	seenWalk(pk+"filterIsdLoop", "(pkg/addr.IA).ISD(arg0[*])", "(pkg/addr.IA).ISD(arg0[*])", true)
}
