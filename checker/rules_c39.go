package main

import (
	"fmt"
	"sort"
	"strings"

	"golang.org/x/tools/go/ssa"
)

func init() {
	register(&PropRule{
		ID:    "C39",
		Roots: []string{"./pkg/drkey/...", "./control/drkey", "./private/drkey/drkeyutil", "./private/storage/drkey/..."},
		Explain: "Decides the structural clauses of DRKey derivation. (M1) The PRF is an AES-CBC-MAC with zero IV over the " +
			"WHOLE input: DeriveKey runs cbcMac(initAESCBC(upper key), input), initAESCBC builds " +
			"cipher.NewCBCEncrypter(aes.NewCipher(key), ZeroBlock), cbcMac calls CryptBlocks over the entire " +
			"buffer and returns its last 16 bytes - so every input block, not only the last one, enters the key. " +
			"(L1) Input layouts: level 1 = [AsAs | dstIA (8 bytes big endian) | zero]; protocol-specific level " +
			"2 = [key type | address type nibble | raw host address | zero padding to a multiple of 16]; " +
			"generic level 2 = [key type | protocol (2 bytes big endian) | address type nibble | raw address | " +
			"padding]; host-host = [HostHost | address type | raw address | padding]; the length is " +
			"16*((hdr+len-1)/16+1). (D1) Domain separation: the four key-type constants are pairwise distinct, " +
			"and each deriver writes its own one (DeriveASHost: AsHost, DeriveHostAS: HostAS, DeriveHostHost: " +
			"HostHost, level 1: AsAs) and derives with the key it was given. (S1) The control service derives " +
			"with the same code as a host: ServiceEngine.Derive* call specific.Deriver / generic.Deriver " +
			"methods (generic with the requested protocol id, specific exactly for the predefined protocols). " +
			"(W1) GetKeyWithinAcceptanceWindow returns key i only behind validity.Contains(absolute time " +
			"computed from key i's epoch) and withinGracePeriod(key i's epoch, that time). NOT decided: AES " +
			"itself, the epoch arithmetic.",
		Run: runC39,
	})
	setClaim("C39", claim{
		Text: "CBC-MAC structure over the whole input, input byte layouts, key-type constants per deriver, service " +
			"engine uses the host derivers, acceptance-window index pairing.",
		Note: claimNote, Technique: "static analysis: call-argument pairing, byte-layout extraction, constant distinctness, " +
			"call-graph who-calls, guard dominance with index pairing",
		Ref: "DESIGN.md §4 C39"})
	pf := "pkg/drkey/protocol.go"
	addMutants(
		Mutant{Prop: "C39", Name: "mac-of-last-block-only", File: pf,
			Old: `	block.CryptBlocks(b, b)
	return b[len(b)-aes.BlockSize:]`, New: `	last := b[len(b)-aes.BlockSize:]
	block.CryptBlocks(last, last)
	return last`, Expect: "M1-cbc-mac"},
		Mutant{Prop: "C39", Name: "nonzero-iv", File: pf,
			Old: `	mode := cipher.NewCBCEncrypter(block, ZeroBlock[:])`, New: `	mode := cipher.NewCBCEncrypter(block, key[:aes.BlockSize])`, Expect: "M1-cbc-mac"},
		Mutant{Prop: "C39", Name: "hosthost-uses-hostas-type", File: pf,
			Old: `	input[0] = uint8(HostHost)`, New: `	input[0] = uint8(HostAS)`, Expect: "L1-input-layout"},
		Mutant{Prop: "C39", Name: "specific-address-type-dropped", File: "pkg/drkey/specific/specific.go",
			Old: `	input[1] = uint8(typ & 0xF)`, New: `	input[1] = uint8(typ & 0x3)`, Expect: "L1-input-layout"},
		Mutant{Prop: "C39", Name: "generic-protocol-one-byte", File: "pkg/drkey/generic/generic.go",
			Old: `	binary.BigEndian.PutUint16(input[1:], uint16(proto))`,
			New: `	binary.BigEndian.PutUint16(input[1:], uint16(uint8(proto)))`, Expect: "L1-input-layout"},
		Mutant{Prop: "C39", Name: "ashost-derives-hostas", File: "pkg/drkey/specific/specific.go",
			Old: `	l, err := d.serializeLevel2Input(buf, drkey.AsHost, host)`, New: `	l, err := d.serializeLevel2Input(buf, drkey.HostAS, host)`, Expect: "D1-domain-separation"},
		Mutant{Prop: "C39", Name: "window-returns-current-for-next", File: "private/drkey/drkeyutil/provider.go",
			Old: `	case validity.Contains(absTimeNext) && withinGracePeriod(keys[2].Epoch, absTimeNext):
		return keys[2], nil`, New: `	case validity.Contains(absTimeNext) && withinGracePeriod(keys[2].Epoch, absTimeNext):
		return keys[1], nil`, Expect: "W1-window"},
	)
}

func runC39(c *Ctx) {
	c39SQLBinding(c)
	dp := "pkg/drkey."
	// M1
	rule := "M1-cbc-mac"
	if v := c.View(dp + "DeriveKey"); v != nil {
		v.RequireCallArgs(rule, 1, dp+"initAESCBC", "local:upperLevelKey[:]")
		v.RequireCallArgs(rule, 1, dp+"cbcMac", dp+"initAESCBC(local:upperLevelKey[:])#0", "arg0*")
		v.RequireStore(rule, 1, "local:upperLevelKey", "arg1")
		ok := false
		for _, ci := range v.Calls(dp + "cbcMac") {
			ok = ci.Args[1] == "arg0[:]" || ci.Args[1] == "arg0"
		}
		c.Check(ok, rule, v.Name()+":mac-over-whole-input", v.Fn.Pos(), "cbcMac is given the entire input")
		v.RequireCallArgs(rule, 1, "builtin:copy", "local:key[:]", dp+"cbcMac(*)")
		e := NewE1(c, v.Fn)
		e.Require(rule, "success", nil, e.SuccessReturns(), e.CallGuard(PassErrNil, dp+"initAESCBC"))
	}
	if v := c.View(dp + "initAESCBC"); v != nil {
		v.RequireCallArgs(rule, 1, "crypto/aes.NewCipher", "arg0")
		v.RequireCallArgs(rule, 1, "crypto/cipher.NewCBCEncrypter", "crypto/aes.NewCipher(arg0)#0", "global:pkg/drkey.ZeroBlock[:]")
		e := NewE1(c, v.Fn)
		okRet := true
		for _, r := range e.SuccessReturns() {
			okRet = okRet && v.S.Sym(RetVal(r.(*ssa.Return), 0)) == "crypto/cipher.NewCBCEncrypter(crypto/aes.NewCipher(arg0)#0, global:pkg/drkey.ZeroBlock[:])"
		}
		c.Check(okRet, rule, v.Name()+":returns-cbc-encrypter", v.Fn.Pos(), "returns the CBC encrypter with zero IV")
	}
	if v := c.View(dp + "cbcMac"); v != nil {
		v.RequireCallArgs(rule, 1, "invoke:crypto/cipher.BlockMode.CryptBlocks", "arg0", "arg1", "arg1")
		e := NewE1(c, v.Fn)
		okRet, n := true, 0
		for _, r := range e.AllReturns() {
			n++
			okRet = okRet && v.S.Sym(r.(*ssa.Return).Results[0]) == "arg1[(builtin:len(arg1) - 16):]"
		}
		c.Check(okRet && n == 1, rule, v.Name()+":last-block", v.Fn.Pos(), "returns the last 16 bytes of the encrypted input")
	}
	// key type constants
	rule = "D1-domain-separation"
	kt := map[string]string{}
	vals := map[string]bool{}
	for _, n := range []string{"AsAs", "AsHost", "HostAS", "HostHost"} {
		kt[n] = c.Const(dp + n)
		vals[kt[n]] = true
	}
	c.Check(len(vals) == 4, rule, "key-type-constants", 0, fmt.Sprintf("AsAs, AsHost, HostAS, HostHost are pairwise distinct: %v", kt))
	num := func(n string) string { return strings.SplitN(kt[n], ":", 2)[0] }
	// L1 layouts
	rule = "L1-input-layout"
	if fn := c.Fn("pkg/drkey/specific.serializeLevel1Input"); fn != nil {
		CheckLayout(c, rule, fn, "arg0", []LayoutSpec{
			{Off: 0, Len: 1, ExprPat: num("AsAs") + "*", Name: "key type AsAs"},
			{Off: 1, Len: 8, ExprPat: "*arg1*", Name: "destination ISD-AS"},
			{Off: 9, Len: 0, ExprPat: "*ZeroBlock*", Name: "zero padding"},
		})
	}
	pack := "pkg/slayers.PackAddr("
	for _, q := range []struct {
		fn, host string
		hdr      int64
		spec     []LayoutSpec
	}{
		{"(" + "pkg/drkey/specific.Deriver).serializeLevel2Input", "arg2", 2, []LayoutSpec{
			{Off: 0, Len: 1, ExprPat: "*arg1*", Name: "key type"},
			{Off: 1, Len: 1, ExprPat: "*(" + pack + "arg2)#0 & 15*", Name: "address type"},
			{Off: 2, Len: 0, ExprPat: pack + "arg2)#1", Name: "raw host address"}}},
		{"(" + "pkg/drkey/generic.Deriver).serializeLevel2Input", "arg3", 4, []LayoutSpec{
			{Off: 0, Len: 1, ExprPat: "*arg1*", Name: "key type"},
			{Off: 1, Len: 2, ExprPat: "arg2", Name: "protocol"},
			{Off: 3, Len: 1, ExprPat: "*(" + pack + "arg3)#0 & 15*", Name: "address type"},
			{Off: 4, Len: 0, ExprPat: pack + "arg3)#1", Name: "raw host address"}}},
		{dp + "SerializeHostHostInput", "arg1", 2, []LayoutSpec{
			{Off: 0, Len: 1, ExprPat: num("HostHost") + "*", Name: "key type HostHost"},
			{Off: 1, Len: 1, ExprPat: "*(" + pack + "arg1)#0 & 15*", Name: "address type"},
			{Off: 2, Len: 0, ExprPat: pack + "arg1)#1", Name: "raw host address"}}},
	} {
		fn := c.Fn(q.fn)
		if fn == nil {
			continue
		}
		base := "arg0"
		c39Layout(c, rule, fn, base, q.spec)
		v := ViewOf(c, fn)
		// length = 16 * ((hdr + len(raw) - 1)/16 + 1), returned and padded up to
		want := fmt.Sprintf("(((((builtin:len(%s%s)#1) + %d) - 1) / 16) + 1) * 16)", pack, q.host, q.hdr)
		e := NewE1(c, fn)
		okLen := true
		for _, r := range e.SuccessReturns() {
			got := v.S.Sym(RetVal(r.(*ssa.Return), 0))
			if got != want {
				okLen = false
				c.Fail(rule, v.Name()+":length", r.Pos(), "returns "+got+"; required "+want)
			}
		}
		if okLen {
			c.OK(rule, v.Name()+":length", fn.Pos(), "input length = 16*((header+len(raw)-1)/16+1)")
		}
		e.Require(rule, "success", nil, e.SuccessReturns(), e.CallGuard(PassErrNil, "pkg/slayers.PackAddr"))
	}
	// D1: each deriver uses its own constant and the key it was given
	rule = "D1-domain-separation"
	for _, q := range []struct{ fn, ser, kt string }{
		{"(" + "pkg/drkey/specific.Deriver).DeriveASHost", "(" + "pkg/drkey/specific.Deriver).serializeLevel2Input", "AsHost"},
		{"(" + "pkg/drkey/specific.Deriver).DeriveHostAS", "(" + "pkg/drkey/specific.Deriver).serializeLevel2Input", "HostAS"},
		{"(" + "pkg/drkey/generic.Deriver).DeriveASHost", "(" + "pkg/drkey/generic.Deriver).serializeLevel2Input", "AsHost"},
		{"(" + "pkg/drkey/generic.Deriver).DeriveHostAS", "(" + "pkg/drkey/generic.Deriver).serializeLevel2Input", "HostAS"},
		{"(" + "pkg/drkey/specific.Deriver).DeriveHostHost", dp + "SerializeHostHostInput", ""},
		{"(" + "pkg/drkey/generic.Deriver).DeriveHostHost", dp + "SerializeHostHostInput", ""},
		{"(" + "pkg/drkey/specific.Deriver).DeriveLevel1", "pkg/drkey/specific.serializeLevel1Input", ""},
	} {
		v := c.View(q.fn)
		if v == nil {
			continue
		}
		calls := v.Calls(q.ser)
		ok := len(calls) == 1
		if ok && q.kt != "" {
			ok = calls[0].Args[2] == kt[q.kt]
		}
		if ok && strings.Contains(q.fn, "generic.Deriver") && q.kt != "" {
			ok = calls[0].Args[3] == "recv.Proto"
		}
		c.Check(ok, rule, v.Name()+":key-type", v.Fn.Pos(), "serializes its input with key type "+q.kt+" (own constant) "+
			"and, for the generic deriver, its own protocol id")
		dk := v.Calls(dp + "DeriveKey")
		okKey := len(dk) == 1
		if okKey {
			last := dk[0].Args[len(dk[0].Args)-1]
			okKey = last == fmt.Sprintf("arg%d", len(v.Fn.Params)-2)
			okKey = okKey && strings.HasPrefix(dk[0].Args[0], "local:makeslice[:")
		}
		c.Check(okKey, rule, v.Name()+":derives-from-given-key", v.Fn.Pos(), "DeriveKey(serialized input, the key handed in)")
	}
	// S1
	rule = "S1-service-derivers"
	sT := "(*control/drkey.ServiceEngine)"
	for _, m := range []string{"DeriveASHost", "DeriveHostAS", "DeriveHostHost"} {
		v := c.View(sT + "." + m)
		if v == nil {
			continue
		}
		// the deriver is an interface value made from generic.Deriver{Proto: meta.ProtoId} or specific.Deriver{}
		var kinds []string
		for _, b := range v.Fn.Blocks {
			for _, in := range b.Instrs {
				if mi, ok := in.(*ssa.MakeInterface); ok {
					t := typeShort(mi.X.Type())
					if strings.HasSuffix(t, "generic.Deriver") || strings.HasSuffix(t, "specific.Deriver") {
						kinds = append(kinds, t)
					}
				}
			}
		}
		sort.Strings(kinds)
		c.Check(len(kinds) == 2 && strings.HasSuffix(kinds[0], "generic.Deriver") && strings.HasSuffix(kinds[1], "specific.Deriver"),
			rule, v.Name()+":derivers", v.Fn.Pos(), fmt.Sprintf("derives through %v (the host-side derivers)", kinds))
		inv := v.Calls("invoke:*." + m)
		c.Check(len(inv) == 1, rule, v.Name()+":single-derivation", v.Fn.Pos(), fmt.Sprintf("%d derivation call(s)", len(inv)))
		okProto := false
		for _, st := range v.Stores("*.Proto") {
			if strings.HasSuffix(st.Val, ".ProtoId") {
				okProto = true
			}
		}
		c.Check(okProto, rule, v.Name()+":generic-protocol", v.Fn.Pos(), "generic.Deriver{Proto: meta.ProtoId}")
	}
	// W1
	rule = "W1-window"
	if v := c.View("(*private/drkey/drkeyutil.FakeProvider).GetKeyWithinAcceptanceWindow"); v != nil {
		e := NewE1(c, v.Fn)
		n := 0
		for _, r := range e.SuccessReturns() {
			ret := r.(*ssa.Return)
			idx := indexOf(RetVal(ret, 0))
			k, ok := foldInt(idx)
			if idx == nil || !ok {
				c.Fail(rule, v.Name()+":returned-key", ret.Pos(), "returns "+short(v.S.Sym(RetVal(ret, 0)))+"; required one of the three epoch keys")
				continue
			}
			n++
			keyK := fmt.Sprintf("[%d].Epoch", k)
			contains := Guard{Name: fmt.Sprintf("window contains time of key %d", k), Match: func(l Lit) bool {
				call, isCall := l.X.(*ssa.Call)
				if l.Kind != "true" || !l.Pos || !isCall || !strings.HasSuffix(calleeName(call.Common()), "Validity).Contains") {
					return false
				}
				abs, _ := callOf(call.Common().Args[1])
				return abs != nil && strings.HasSuffix(calleeName(abs.Common()), "AbsoluteTimestamp") &&
					strings.HasSuffix(accessPathIdx(abs.Common().Args[0]), keyK)
			}}
			grace := Guard{Name: fmt.Sprintf("grace period of key %d", k), Match: func(l Lit) bool {
				call, isCall := l.X.(*ssa.Call)
				if l.Kind != "true" || !l.Pos || !isCall || !strings.HasSuffix(calleeName(call.Common()), "withinGracePeriod") {
					return false
				}
				abs, _ := callOf(call.Common().Args[1])
				return strings.HasSuffix(accessPathIdx(call.Common().Args[0]), keyK) && abs != nil &&
					strings.HasSuffix(accessPathIdx(abs.Common().Args[0]), keyK)
			}}
			e.Require(rule, fmt.Sprintf("key-%d", k), nil, []ssa.Instruction{ret}, contains, grace)
		}
		c.Check(n == 3, rule, v.Name()+":three-candidates", v.Fn.Pos(), fmt.Sprintf("%d keyed successful returns", n))
	}
}

// accessPathIdx renders field and constant-index selections (".A[2].B").
func accessPathIdx(v ssa.Value) string {
	p := ""
	for d := 0; d < 12; d++ {
		switch x := v.(type) {
		case *ssa.UnOp:
			v = x.X
		case *ssa.FieldAddr:
			p = "." + fieldName(x.X.Type(), x.Field) + p
			v = x.X
		case *ssa.Field:
			p = "." + fieldName(x.X.Type(), x.Field) + p
			v = x.X
		case *ssa.IndexAddr:
			if k, ok := foldInt(x.Index); ok {
				p = fmt.Sprintf("[%d]", k) + p
			} else {
				p = "[?]" + p
			}
			v = x.X
		case *ssa.Index:
			if k, ok := foldInt(x.Index); ok {
				p = fmt.Sprintf("[%d]", k) + p
			} else {
				p = "[?]" + p
			}
			v = x.X
		default:
			return p
		}
	}
	return p
}

// c39Layout checks the fixed-offset writes of an input serializer (the variable
// tail - raw address and zero padding - is covered by the Len 0 entries).
func c39Layout(c *Ctx, rule string, fn *ssa.Function, base string, spec []LayoutSpec) {
	s := NewSymer()
	ents := ExtractLayout(fn, s)
	for _, sp := range spec {
		found := false
		var got []string
		for _, e := range ents {
			if e.Base != base || e.Off != sp.Off {
				continue
			}
			got = append(got, e.String())
			if (sp.Len == 0 || e.Len == sp.Len) && wild(sp.ExprPat, e.Expr) {
				found = true
			}
		}
		construct := fmt.Sprintf("%s:%s@%d", FuncName(fn), sp.Name, sp.Off)
		c.Check(found, rule, construct, fn.Pos(), fmt.Sprintf("byte %d <- %s; found: [%s]", sp.Off, sp.ExprPat, strings.Join(got, "; ")))
	}
	// no other constant-offset write inside the header
	var hdr int64
	for _, sp := range spec {
		if sp.Len > 0 && sp.Off+sp.Len > hdr {
			hdr = sp.Off + sp.Len
		}
	}
	extra := 0
	for _, e := range ents {
		if e.Base != base || e.Off < 0 || e.Off >= hdr {
			continue
		}
		ok := false
		for _, sp := range spec {
			if sp.Off == e.Off {
				ok = true
			}
		}
		if !ok {
			extra++
		}
	}
	c.Check(extra == 0, rule, FuncName(fn)+":no-other-header-writes", fn.Pos(), fmt.Sprintf("%d unexpected write(s) into the %d header bytes", extra, hdr))
}
