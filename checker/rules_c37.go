package main

import (
	"fmt"

	"golang.org/x/tools/go/ssa"
)

func init() {
	register(&PropRule{
		ID:    "C37",
		Roots: []string{"./private/ca/renewal", "./pkg/scrypto/cppki", "./private/trust"},
		Explain: "Decides on all CFG paths: VerifyCMSSignedRenewalRequest returns a CSR only after the " +
			"CMS parses, a valid two-certificate chain was extracted, VerifySignature succeeded and " +
			"processCSR accepted the CSR parsed from the signed payload, bound to the chain's AS " +
			"certificate; VerifySignature requires exactly one signer info, whose certificate is the " +
			"chain's AS certificate, a client chain that verifies, data content and a signer info " +
			"(digest + signature) verification over that payload with the AS certificate; " +
			"verifyClientChain requires the latest TRC to be found, non-zero and active now and the " +
			"chain to verify against it, falling back to the predecessor TRC only when verification " +
			"against the latest failed and the grace period has not ended (predecessor found, " +
			"non-zero, active now, chain verifies); processCSR requires the CSR subject's ISD-AS to " +
			"equal the signing certificate's ISD-AS and the CSR's self-signature; CreateChain issues " +
			"only if the CA validity covers the new validity, copies subject and public key from the " +
			"CSR and validates the produced chain. NOT decided: x509/CMS arithmetic.",
		Run: runC37,
	})
	setClaim("C37", claim{
		Text: "Guard dominance of all renewal-request checks over the success returns (19 atoms), " +
			"pairing of the verified payload / certificate / CSR values, grace-fallback edge structure.",
		Note: claimNote, Technique: "static analysis: guard dominance by pass-edge removal, symbolic " +
			"pairing on SSA", Ref: "DESIGN.md §4 C37"})
	addMutants(
		Mutant{Prop: "C37", Name: "signer-not-as-cert", File: "private/ca/renewal/request.go",
			Old: `	if signer != chain[0] {
		return serrors.New("not signed with AS certificate",`,
			New: `	if signer != chain[0] && signer != chain[1] {
		return serrors.New("not signed with AS certificate",`, Expect: "G2-verify-signature"},
		Mutant{Prop: "C37", Name: "grace-after-end", File: "private/ca/renewal/request.go",
			Old: `		if now.After(trc.TRC.GracePeriodEnd()) {
			return serrors.Wrap("verifying client chain", err)
		}
`, New: "", Expect: "G3-client-chain"},
		Mutant{Prop: "C37", Name: "csr-subject-unchecked-for-same-isd", File: "private/ca/renewal/request.go",
			Old:    `	if !csrIA.Equal(chainIA) {`,
			New:    `	if csrIA.ISD() != chainIA.ISD() {`,
			Expect: "G4-process-csr"},
		Mutant{Prop: "C37", Name: "csr-bound-to-ca-cert", File: "private/ca/renewal/request.go",
			Old: `	return r.processCSR(csr, chain[0])`, New: `	return r.processCSR(csr, chain[1])`,
			Expect: "G1-request"},
		Mutant{Prop: "C37", Name: "inactive-latest-trc", File: "private/ca/renewal/request.go",
			Old: `	if val := trc.TRC.Validity; !val.Contains(now) {
		return serrors.New("latest TRC currently not active", "validity", val, "current_time", now)
	}
`, New: "", Expect: "G3-client-chain"},
		// Note: weakening the Covers test alone is NOT a mutant: ValidateChain on the
		// produced chain re-establishes it (the interprocedural summary sees that).
		Mutant{Prop: "C37", Name: "createchain-subject-from-ca", File: "pkg/scrypto/cppki/ca.go",
			Old: `	subject := csr.Subject`, New: `	subject := ca.Certificate.Subject`,
			Expect: "G5-create-chain"},
		Mutant{Prop: "C37", Name: "createchain-unvalidated", File: "pkg/scrypto/cppki/ca.go",
			Old: `	if err := ValidateChain(chain); err != nil {
		return nil, serrors.Wrap("created invalid AS certificate", err)
	}`, New: `	if err := ValidateChain(chain); err != nil && ca.CurrentTime.IsZero() {
		return nil, serrors.Wrap("created invalid AS certificate", err)
	}`, Expect: "G5-create-chain"},
	)
}

func runC37(c *Ctx) {
	gracePeriodEnd(c, "G4-grace-period-end")
	requireStateless(c, "M1-no-state-between-requests", "(private/ca/renewal.RequestVerifier).VerifyCMSSignedRenewalRequest")
	// "that chain verifies against the currently valid TRC" is cppki.VerifyChain: the
	// chain validation, the x509 verification at the given time against the TRC's
	// root pool (C34 V1, V2) and the certificate constraints (C34 K1).
	c.Borrow(runC34, map[string]string{"V1-validate-chain": "C1-what-chain-verifies-means", "V2-verify-chain": "C1-what-chain-verifies-means",
		"K1-scion-certificate-constraints": "C1-what-chain-verifies-means"})
	rT :="(private/ca/renewal.RequestVerifier)"
	if v := c.View(rT + ".VerifyCMSSignedRenewalRequest"); v != nil {
		e := NewE1(c, v.Fn)
		sd := "(pkg/scrypto/cms/protocol.ContentInfo).SignedDataContent(pkg/scrypto/cms/protocol.ParseContentInfo(arg1)#0)#0"
		chain := "private/ca/renewal.ExtractChain(" + sd + ")#0"
		pld := "(pkg/scrypto/cms/protocol.EncapsulatedContentInfo).EContentValue(" + sd + ".EncapContentInfo)#0"
		e.Require("G1-request", "success-returns", nil, e.SuccessReturns(),
			e.CallGuard(PassErrNil, "pkg/scrypto/cms/protocol.ParseContentInfo"),
			e.CallGuard(PassErrNil, "private/ca/renewal.ExtractChain"),
			e.CallGuard(PassErrNil, rT+".VerifySignature"),
			e.CallGuard(PassErrNil, "crypto/x509.ParseCertificateRequest"),
			e.CallGuard(PassErrNil, rT+".processCSR"))
		v.RequireCallArgs("G1-request", 1, rT+".VerifySignature", "recv", "arg0", sd, chain)
		v.RequireCallArgs("G1-request", 1, "crypto/x509.ParseCertificateRequest", pld)
		v.RequireCallArgs("G1-request", 1, rT+".processCSR", "recv",
			"crypto/x509.ParseCertificateRequest("+pld+")#0", chain+"[0]")
	}
	if v := c.View("private/ca/renewal.ExtractChain"); v != nil {
		e := NewE1(c, v.Fn)
		e.Require("G1-request", "success-returns", nil, e.SuccessReturns(),
			e.CallGuard(PassErrNil, "pkg/scrypto/cppki.ValidateChain"))
	}
	if v := c.View(rT + ".VerifySignature"); v != nil {
		e := NewE1(c, v.Fn)
		si := "arg1.SignerInfos[0]"
		pld := "(pkg/scrypto/cms/protocol.EncapsulatedContentInfo).EContentValue(arg1.EncapContentInfo)#0"
		e.Require("G2-verify-signature", "success-returns", nil, e.SuccessReturns(),
			e.AtomGuard("version-1", "+eq(arg1.Version, 1)"),
			e.AtomGuard("single-signer-info", "+eq(builtin:len(arg1.SignerInfos), 1)"),
			e.AtomGuard("signer-found-in-chain", "+eq((pkg/scrypto/cms/protocol.SignerInfo).FindCertificate("+si+", arg2)#1, nil)"),
			e.AtomGuard("signer-is-AS-certificate", "+eq((pkg/scrypto/cms/protocol.SignerInfo).FindCertificate("+si+", arg2)#0, arg2[0])",
				"+eq(arg2[0], (pkg/scrypto/cms/protocol.SignerInfo).FindCertificate("+si+", arg2)#0)"),
			e.AtomGuard("client-chain-verifies", "+eq("+rT+".verifyClientChain(recv, arg0, arg2), nil)"),
			e.AtomGuard("content-is-data", "+true((pkg/scrypto/cms/protocol.EncapsulatedContentInfo).IsTypeData(arg1.EncapContentInfo))"),
			e.AtomGuard("signer-info-verifies", "+eq(private/ca/renewal.verifySignerInfo("+pld+", arg2[0], "+si+"), nil)"))
	}
	if v := c.View("private/ca/renewal.verifySignerInfo"); v != nil {
		e := NewE1(c, v.Fn)
		e.Require("G2-verify-signature", "success-returns", nil, e.SuccessReturns(),
			e.AtomGuard("digest-matches", "+true(bytes.Equal((pkg/scrypto/cms/protocol.SignerInfo).GetMessageDigestAttribute(arg2)#0, invoke:hash.Hash.Sum(*; nil)))"),
			e.CallGuard(PassErrNil, "(*crypto/x509.Certificate).CheckSignature"))
		v.RequireCallArgs("G2-verify-signature", 1, "invoke:hash.Hash.Write", "", "arg0")
		v.RequireCallArgs("G2-verify-signature", 1, "(*crypto/x509.Certificate).CheckSignature", "arg1",
			"(pkg/scrypto/cms/protocol.SignerInfo).X509SignatureAlgorithm(arg2)",
			"(pkg/scrypto/cms/protocol.Attributes).MarshaledForVerifying(arg2.SignedAttrs)#0", "arg2.Signature")
	}
	if v := c.View(rT + ".verifyClientChain"); v != nil {
		e := NewE1(c, v.Fn)
		latest := "pkg/scrypto/cppki.VerifyChain(arg1, local:complit)"
		grace := rT + ".verifyWithGraceTRC(recv, arg0, time.Now(), local:graceID, arg1)"
		e.Require("G3-client-chain", "success-returns", nil, e.SuccessReturns(),
			e.AtomGuard("latest-TRC-found", "+eq(invoke:private/ca/renewal.TRCFetcher.SignedTRC(recv.TRCFetcher; arg0, local:complit)#1, nil)"),
			e.AtomGuard("latest-TRC-non-zero", "-true((*pkg/scrypto/cppki.SignedTRC).IsZero(local:trc))"),
			e.AtomGuard("latest-TRC-active", "+true((pkg/scrypto/cppki.Validity).Contains(local:trc.TRC.Validity, time.Now()))"),
			Or("verifies-with-latest-or-grace",
				e.AtomGuard("a", "+eq("+latest+", nil)"), e.AtomGuard("b", "+eq("+grace+", nil)")))
		gc := e.CallSites(rT + ".verifyWithGraceTRC")
		c.Min("verifyClientChain:grace-fallback", len(gc), 1)
		e.Require("G3-client-chain", "grace-fallback-only-after-failure-and-in-grace", nil, gc,
			e.AtomGuard("latest-failed", "-eq("+latest+", nil)"),
			e.AtomGuard("grace-period-not-over", "-true((time.Time).After(time.Now(), (*pkg/scrypto/cppki.TRC).GracePeriodEnd(local:trc.TRC)))",
				"+true((time.Time).Before(time.Now(), (*pkg/scrypto/cppki.TRC).GracePeriodEnd(local:trc.TRC)))"))
		v.RequireStore("G3-client-chain", 1, "local:graceID", "local:trc.TRC.ID")
		v.RequireStore("G3-client-chain", 1, "local:graceID.Serial", "(local:graceID.Serial - 1:pkg/scrypto.Version)")
		v.RequireStore("G3-client-chain", 1, "local:complit.ISD", "(pkg/addr.IA).ISD(pkg/scrypto/cppki.ExtractIA(arg1[0].Subject)#0)")
		v.RequireStore("G3-client-chain", 1, "local:complit.Serial", c.Const("pkg/scrypto.LatestVer"))
		v.RequireStore("G3-client-chain", 1, "local:complit.Base", c.Const("pkg/scrypto.LatestVer"))
	}
	if v := c.View(rT + ".verifyWithGraceTRC"); v != nil {
		e := NewE1(c, v.Fn)
		e.Require("G3-client-chain", "success-returns", nil, e.SuccessReturns(),
			e.AtomGuard("grace-TRC-found", "+eq(invoke:private/ca/renewal.TRCFetcher.SignedTRC(recv.TRCFetcher; arg0, arg2)#1, nil)"),
			e.AtomGuard("grace-TRC-non-zero", "-true((*pkg/scrypto/cppki.SignedTRC).IsZero(local:trc))"),
			e.AtomGuard("grace-TRC-active", "+true((pkg/scrypto/cppki.Validity).Contains(local:trc.TRC.Validity, arg1))"),
			e.AtomGuard("chain-verifies", "+eq(pkg/scrypto/cppki.VerifyChain(arg3, local:complit), nil)"))
		v.RequireStore("G3-client-chain", 1, "local:slicelit[0]", "local:trc.TRC")
	}
	if v := c.View(rT + ".processCSR"); v != nil {
		e := NewE1(c, v.Fn)
		a, b := "pkg/scrypto/cppki.ExtractIA(arg0.Subject)#0", "pkg/scrypto/cppki.ExtractIA(arg1.Subject)#0"
		e.Require("G4-process-csr", "success-returns", nil, e.SuccessReturns(),
			e.AtomGuard("csr-IA-parses", "+eq(pkg/scrypto/cppki.ExtractIA(arg0.Subject)#1, nil)"),
			e.AtomGuard("chain-IA-parses", "+eq(pkg/scrypto/cppki.ExtractIA(arg1.Subject)#1, nil)"),
			e.AtomGuard("same-ISD-AS", "+true((pkg/addr.IA).Equal("+a+", "+b+"))", "+true((pkg/addr.IA).Equal("+b+", "+a+"))",
				"+eq("+a+", "+b+")"),
			e.AtomGuard("csr-self-signature", "+eq((*crypto/x509.CertificateRequest).CheckSignature(arg0), nil)"))
		okRet := true
		for _, r := range e.SuccessReturns() {
			if v.S.Sym(RetVal(r.(*ssa.Return), 0)) != "arg0" {
				okRet = false
			}
		}
		c.Check(okRet, "G4-process-csr", v.Name()+":returns-checked-csr", v.Fn.Pos(), "returns the CSR it checked")
	}
	if v := c.View("(pkg/scrypto/cppki.CAPolicy).CreateChain"); v != nil {
		e := NewE1(c, v.Fn)
		e.Require("G5-create-chain", "success-returns", nil, e.SuccessReturns(),
			e.CallGuard(PassTrue, "(pkg/scrypto/cppki.Validity).Covers"),
			e.CallGuard(PassErrNil, "crypto/x509.CreateCertificate"),
			e.CallGuard(PassErrNil, "pkg/scrypto/cppki.ValidateChain"))
		e.FailStop("G5-create-chain", "covers", 1, e.CallGuard(PassTrue, "(pkg/scrypto/cppki.Validity).Covers"))
		for _, ci := range v.Calls("(pkg/scrypto/cppki.Validity).Covers") {
			args := ci.In.Common().Args
			ca, as := storesInto(allocOf(args[0]), v.S), storesInto(allocOf(args[1]), v.S)
			ok := ca["NotBefore"] == "recv.Certificate.NotBefore" && ca["NotAfter"] == "recv.Certificate.NotAfter" &&
				wild("*", as["NotBefore"]) && wild("(time.Time).Add(*, recv.Validity)", as["NotAfter"])
			c.Check(ok, "G5-create-chain", v.Name()+":ca-covers-new-validity", ci.In.Pos(),
				fmt.Sprintf("Covers(receiver %v, argument %v)", ca, as))
		}
		v.RequireStore("G5-create-chain", 1, "local:subject", "arg0.Subject")
		// the subject is marshalled from ExtraNames: exactly the CSR's attribute list, in its
		// order (findIA reads the FIRST ISD-AS attribute; dropping or re-ordering attributes
		// changes which AS the issued certificate names)
		v.RequireStore("G5-create-chain", 1, "local:subject.ExtraNames", "local:subject.Names", "arg0.Subject.Names")
		v.RequireStore("G5-create-chain", 1, "local:complit.Subject", "local:subject")
		v.RequireCallArgs("G5-create-chain", 1, "crypto/x509.CreateCertificate", "", "", "recv.Certificate",
			"arg0.PublicKey", "recv.Signer")
		v.RequireCallArgs("G5-create-chain", 1, "pkg/scrypto/cppki.SubjectKeyID", "arg0.PublicKey")
		v.RequireStore("G5-create-chain", 1, "local:complit.AuthorityKeyId", "recv.Certificate.SubjectKeyId")
		v.RequireStore("G5-create-chain", 1, "local:complit.BasicConstraintsValid", "false")
	}
}
