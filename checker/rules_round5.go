package main

import (
	"fmt"
	"sort"
	"strings"

	"golang.org/x/tools/go/ssa"
)

// Rules that came out of the fifth seed round ("somewhere else again").

func init() {
	addMutants(
		Mutant{Prop: "C18", Name: "rawpath-keeps-a-longer-old-buffer", File: "pkg/slayers/path/path.go",
			Old: `	p.raw = b
	return nil`, New: `	if cap(p.raw) < len(b) {
		p.raw = make([]byte, len(b))
	}
	copy(p.raw, b)
	return nil`, Expect: "W2-rawpath-holds-the-input"},
		Mutant{Prop: "C01", Name: "mac-key-truncated-to-128-bits", File: "router/dataplane.go",
			Old: `	d.macFactory = func() hash.Hash {
		mac, _ := scrypto.InitMac(key)`, New: `	short := key
	if len(short) > 16 {
		short = short[:16]
	}
	d.macFactory = func() hash.Hash {
		mac, _ := scrypto.InitMac(short)`, Expect: "K1-configured-key-is-the-mac-key"},
		Mutant{Prop: "C08", Name: "auth-option-length-counts-header", File: "pkg/slayers/pkt_auth.go",
			Old: `	if len(o.OptData) < PacketAuthOptionMetadataLen {`, New: `	if o.ActualLength < PacketAuthOptionMetadataLen {`, Expect: "I2-auth-option-invariant"},
		Mutant{Prop: "C14", Name: "links-stopped-before-connections", File: "router/underlayproviders/udpip/udpip.go",
			Old: `	for _, c := range connSnapshot {
		c.stop()
	}
	for _, l := range linkSnapshot {
		l.stop()
	}`, New: `	for _, l := range linkSnapshot {
		l.stop()
	}
	for _, c := range connSnapshot {
		c.stop()
	}`, Expect: "S2-receivers-joined-before-queues-drained"},
		Mutant{Prop: "C23", Name: "configured-zero-maxexptime-replaced-by-default", File: "control/beacon/policy.go",
			Old: `	if p.MaxExpTime == nil {`, New: `	if p.MaxExpTime == nil || *p.MaxExpTime == 0 {`, Expect: "D1-configured-maximum-is-kept"},
		Mutant{Prop: "C41", Name: "sender-hands-sequence-number-back", File: "gateway/dataplane/sender.go",
			Old: `		_, err := c.conn.WriteTo(frame, c.address)`, New: `		_, err := c.conn.WriteTo(frame, c.address)
		if err != nil {
			c.encoder.seq--
		}`, Expect: "Q1-sequence-number-owner"},
	)
}

// C14, shutdown: a link's stop() makes its processor drain the link's queue and
// exit - and that drain is the only thing that ever empties the queue. It may
// happen only after every connection's receive loop was joined
// (udpConnection.stop), otherwise a packet received in between sits in a queue
// nobody reads and its buffer never returns to the pool.
func c14ReceiversJoinedFirst(c *Ctx) {
	rule := "S2-receivers-joined-before-queues-drained"
	v := c.View("(*router/underlayproviders/udpip.provider).Stop")
	if v == nil {
		return
	}
	conns := v.Calls("(*router/underlayproviders/udpip.udpConnection).stop")
	links := v.Calls("invoke:router/underlayproviders/udpip.udpLink.stop")
	if !c.Check(len(conns) == 1 && len(links) == 1, rule, v.Name()+":anchors", v.Fn.Pos(), fmt.Sprintf(
		"%d connection stop site(s), %d link stop site(s)", len(conns), len(links))) {
		return
	}
	cb, lb := conns[0].In.(ssa.Instruction).Block(), links[0].In.(ssa.Instruction).Block()
	hc := loopHeaderOf(cb)
	ok := hc != nil && hc.Dominates(lb) && !naturalLoop(hc)[lb] && !cfgReach(lb, cb, nil)
	passes, inLoop := everyIterationPasses(cb)
	c.Check(ok && passes && inLoop, rule, v.Name()+":order", v.Fn.Pos(),
		"every connection is stopped (its receiver joined) in a loop that is finished before the first link is stopped; no connection is stopped after a link")
}

// C01, "valid under this AS's key": the key that verifies hop fields is the key
// the router was configured with - all of it. SetKey validates the key with
// scrypto.InitMac(key) and installs a factory that builds every processor's MAC
// with scrypto.InitMac(key) on THE SAME value: the parameter itself (captured),
// not a copy, a prefix or a re-derivation of it.
func c01ConfiguredKeyIsTheMacKey(c *Ctx) {
	rule := "K1-configured-key-is-the-mac-key"
	v := c.View("(*router.dataPlane).SetKey")
	if v == nil {
		return
	}
	okVal := false
	for _, ci := range v.Calls("pkg/scrypto.InitMac") {
		// the parameter, or the cell it was spilled into because the closure captures it
		okVal = ci.Args[0] == "arg0" || ci.Args[0] == "local:key"
	}
	c.Check(okVal, rule, v.Name()+":validated-key-is-the-parameter", v.Fn.Pos(), "SetKey validates the key it was given with InitMac")
	n := 0
	for _, an := range v.Fn.AnonFuncs {
		av := ViewOf(c, an)
		calls := av.Calls("pkg/scrypto.InitMac")
		if len(calls) == 0 {
			continue
		}
		n++
		ok := len(calls) == 1
		for _, ci := range calls {
			fv, isFV := ci.In.Common().Args[0].(*ssa.UnOp)
			if !isFV {
				_, isFree := ci.In.Common().Args[0].(*ssa.FreeVar)
				ok = ok && isFree
				continue
			}
			_, isFree := fv.X.(*ssa.FreeVar)
			ok = ok && isFree
		}
		// the captured variable is the parameter: the only store into its cell is the parameter
		bound := false
		for _, b := range v.Fn.Blocks {
			for _, in := range b.Instrs {
				mc, isMC := in.(*ssa.MakeClosure)
				if !isMC || mc.Fn != ssa.Value(an) || len(mc.Bindings) != 1 {
					continue
				}
				switch bd := mc.Bindings[0].(type) {
				case *ssa.Parameter:
					bound = v.S.Sym(bd) == "arg0"
				case *ssa.Alloc:
					nSt := 0
					for _, r := range *bd.Referrers() {
						if st, isSt := r.(*ssa.Store); isSt && st.Addr == ssa.Value(bd) {
							nSt++
							bound = v.S.Sym(st.Val) == "arg0"
						}
					}
					bound = bound && nSt == 1
				}
			}
		}
		c.Check(ok && bound, rule, v.Name()+":factory-uses-the-configured-key", an.Pos(),
			"the MAC factory calls InitMac on the captured key parameter itself (one call, captured variable bound to the parameter only)")
	}
	if n == 0 {
		c.Fail(rule, v.Name()+":factory-uses-the-configured-key", v.Fn.Pos(), "no closure of SetKey calls InitMac: the factory does not build a MAC from the key per call")
	}
}

// C08, the representation invariant that the audited accessors of PacketAuthOption
// cite ("len(OptData) >= 12"): ParsePacketAuthOption returns an option only behind
// the test that len(o.OptData) is not below the metadata length - the DATA length,
// not ActualLength, which counts the two header bytes too.
func c08AuthOptionInvariant(c *Ctx) {
	rule := "I2-auth-option-invariant"
	v := c.View("pkg/slayers.ParsePacketAuthOption")
	if v == nil {
		return
	}
	e := NewE1(c, v.Fn)
	e.Require(rule, "success-returns", nil, e.SuccessReturns(),
		e.AtomGuard("len(OptData) >= 12", "-lt(builtin:len(arg0.OptData), 12)", "+lt(11, builtin:len(arg0.OptData))"),
		e.AtomGuard("option type is the authenticator", "+eq(arg0.OptType, *)", "-eq(arg0.OptType, *)"))
}

// C18: the catch-all path codec for unknown path types keeps exactly the bytes
// it was given: DecodeFromBytes stores its argument, Len is the length of what is
// stored, SerializeTo copies what is stored. A layer with RecyclePaths() reuses one
// rawPath for every packet: anything remembered from the previous packet (a longer
// backing array, say) becomes part of this packet's path.
func c18RawPathHoldsInput(c *Ctx) {
	rule := "W2-rawpath-holds-the-input"
	pt := "(*pkg/slayers/path.rawPath)"
	if v := c.View(pt + ".DecodeFromBytes"); v != nil {
		v.RequireStore(rule, 1, "recv.raw", "arg0")
		n := len(v.Calls("builtin:copy", "builtin:append", "builtin:make*"))
		c.Check(n == 0, rule, v.Name()+":no-buffer-reuse", v.Fn.Pos(), fmt.Sprintf("%d copy/append/make call(s): the decoded path IS the input slice", n))
	}
	if v := c.View(pt + ".Len"); v != nil {
		ok := false
		for _, b := range v.Fn.Blocks {
			if r, isR := b.Instrs[len(b.Instrs)-1].(*ssa.Return); isR && v.S.Sym(r.Results[0]) == "builtin:len(recv.raw)" {
				ok = true
			}
		}
		c.Check(ok, rule, v.Name()+":length-of-what-is-held", v.Fn.Pos(), "Len() is len(raw)")
	}
	if v := c.View(pt + ".SerializeTo"); v != nil {
		v.RequireCallArgs(rule, 1, "builtin:copy", "arg0", "recv.raw")
	}
}

// C23: "never exceeds the configured maximum": the maximum the extender is given
// comes from the beaconing policy; InitDefaults fills in the default (63) only
// for a policy that configures none. MaxExpTime is a pointer precisely so that a
// configured 0 - the shortest lifetime - is distinguishable from "not set".
func c23ConfiguredMaximumKept(c *Ctx) {
	rule := "D1-configured-maximum-is-kept"
	v := c.View("(*control/beacon.Policy).InitDefaults")
	if v == nil {
		return
	}
	e := NewE1(c, v.Fn)
	var sinks []ssa.Instruction
	for _, st := range v.Stores("recv.MaxExpTime") {
		sinks = append(sinks, st.In)
	}
	c.Min("InitDefaults:MaxExpTime-stores", len(sinks), 1)
	e.Require(rule, "default-only-when-unset", nil, sinks, e.AtomGuard("MaxExpTime == nil", "+eq(recv.MaxExpTime, nil)"))
	// and nothing in InitDefaults looks at the configured value
	reads := 0
	for _, b := range v.Fn.Blocks {
		for _, in := range b.Instrs {
			if u, ok := in.(*ssa.UnOp); ok && strings.HasPrefix(v.S.Sym(u), "*recv.MaxExpTime") {
				reads++
			}
			if u, ok := in.(*ssa.UnOp); ok {
				if ld, isLd := u.X.(*ssa.UnOp); isLd && v.S.Sym(ld) == "recv.MaxExpTime" {
					reads++
				}
			}
		}
	}
	c.Check(reads == 0, rule, v.Name()+":configured-value-not-inspected", v.Fn.Pos(), fmt.Sprintf("%d read(s) of the configured value *MaxExpTime", reads))
}

// C41: the frame sequence number is how the receiver sees loss (a gap resets
// reassembly). It belongs to the encoder: consumed bytes and sequence number
// advance together in encoder.Read. Anybody else "correcting" it (handing a number
// back after a failed send) makes two different frames carry the same number or
// hides a lost frame, and the receiver splices packets that were never sent.
func c41SequenceNumberOwner(c *Ctx) {
	rule := "Q1-sequence-number-owner"
	var writers, bad []string
	for fn := range c.Prog.AllFuncs() {
		if fn.Blocks == nil || fn.Pkg == nil || !strings.HasSuffix(fn.Pkg.Pkg.Path(), "/gateway/dataplane") {
			continue
		}
		for _, b := range fn.Blocks {
			for _, in := range b.Instrs {
				st, ok := in.(*ssa.Store)
				if !ok {
					continue
				}
				fa, isFA := st.Addr.(*ssa.FieldAddr)
				if !isFA || typeShort(fa.X.Type()) != "*gateway/dataplane.encoder" || fieldName(fa.X.Type(), fa.Field) != "seq" {
					continue
				}
				name := FuncName(fn)
				writers = append(writers, name)
				if !strings.HasPrefix(name, "(*gateway/dataplane.encoder).") && name != "gateway/dataplane.newEncoder" {
					bad = append(bad, name)
				} else if val := NewSymer().Sym(st.Val); val != "(recv.seq + 1)" && val != "0" && !strings.HasPrefix(val, "0:") {
					// in the encoder it only ever advances by one (or starts at zero)
					bad = append(bad, name+" stores "+val)
				}
			}
		}
	}
	sort.Strings(writers)
	c.Min("encoder.seq-writers", len(writers), 1)
	c.Check(len(bad) == 0, rule, "gateway/dataplane.encoder.seq:written-only-by-the-encoder", 0, fmt.Sprintf(
		"written by %v; outside the encoder: %v", writers, bad))
}
