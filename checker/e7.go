package main

import (
	"fmt"
	"go/token"
	"go/types"
	"sort"
	"strings"

	"golang.org/x/tools/go/callgraph"
	"golang.org/x/tools/go/ssa"
)

// E7 — who writes which bytes. For every function the analysis collects the
// instructions that store into a byte slice or byte array (element stores,
// copy, append-in-place, binary.*.PutUintN, and calls of functions that do so
// to one of their parameters) and resolves the ROOT of the destination: a
// parameter, a struct field (type.field), a local allocation, a call result or
// a global. Parameter roots are resolved at the call sites through summaries
// (fixpoint over the call graph), so that a write is finally attributed to the
// function that chose the destination.

type ByteRoot struct {
	Kind  string // param | field | local | call | global | other
	Idx   int    // param index
	Name  string // field: "pkg.Type.field"; call: callee name
	Array bool   // field roots: the field is an array (cannot alias other memory)
}

func (r ByteRoot) String() string {
	if r.Kind == "param" {
		return fmt.Sprintf("param%d", r.Idx)
	}
	if r.Name != "" {
		return r.Kind + ":" + r.Name
	}
	return r.Kind
}

type ByteWrite struct {
	Fn   *ssa.Function
	Root ByteRoot
	How  string
	Pos  token.Pos
}

func isByteSeq(t types.Type) bool {
	switch u := t.Underlying().(type) {
	case *types.Slice:
		b, ok := u.Elem().Underlying().(*types.Basic)
		return ok && b.Kind() == types.Uint8
	case *types.Array:
		b, ok := u.Elem().Underlying().(*types.Basic)
		return ok && b.Kind() == types.Uint8
	case *types.Pointer:
		if a, ok := u.Elem().Underlying().(*types.Array); ok {
			b, ok := a.Elem().Underlying().(*types.Basic)
			return ok && b.Kind() == types.Uint8
		}
	}
	return false
}

func structFieldName(x ssa.Value, idx int) string {
	t := x.Type()
	if p, ok := t.Underlying().(*types.Pointer); ok {
		t = p.Elem()
	}
	return strings.TrimPrefix(typeShort(t), "*") + "." + fieldName(x.Type(), idx)
}

// byteRoots resolves where a byte slice / array pointer comes from.
func byteRoots(v ssa.Value) []ByteRoot {
	var out []ByteRoot
	seen := map[ssa.Value]bool{}
	var walk func(x ssa.Value, d int)
	walk = func(x ssa.Value, d int) {
		if x == nil || seen[x] || d > 12 {
			return
		}
		seen[x] = true
		switch y := x.(type) {
		case *ssa.Parameter:
			idx := -1
			for i, p := range y.Parent().Params {
				if p == y {
					idx = i
				}
			}
			out = append(out, ByteRoot{Kind: "param", Idx: idx})
		case *ssa.Slice:
			walk(y.X, d+1)
		case *ssa.IndexAddr:
			walk(y.X, d+1)
		case *ssa.Convert:
			walk(y.X, d+1)
		case *ssa.ChangeType:
			walk(y.X, d+1)
		case *ssa.Phi:
			for _, e := range y.Edges {
				walk(e, d+1)
			}
		case *ssa.FieldAddr:
			out = append(out, ByteRoot{Kind: "field", Name: structFieldName(y.X, y.Field), Array: fieldArray(y.X, y.Field)})
		case *ssa.Field:
			out = append(out, ByteRoot{Kind: "field", Name: structFieldName(y.X, y.Field), Array: fieldArray(y.X, y.Field)})
		case *ssa.UnOp:
			if y.Op != token.MUL {
				out = append(out, ByteRoot{Kind: "other"})
				return
			}
			switch a := y.X.(type) {
			case *ssa.FieldAddr:
				out = append(out, ByteRoot{Kind: "field", Name: structFieldName(a.X, a.Field), Array: fieldArray(a.X, a.Field)})
			case *ssa.Alloc:
				// a local variable holding a slice: whatever was stored into it
				n := 0
				if a.Referrers() != nil {
					for _, r := range *a.Referrers() {
						if st, ok := r.(*ssa.Store); ok && st.Addr == a {
							walk(st.Val, d+1)
							n++
						}
					}
				}
				if n == 0 {
					out = append(out, ByteRoot{Kind: "local"})
				}
			case *ssa.Global:
				out = append(out, ByteRoot{Kind: "global", Name: a.Name()})
			default:
				out = append(out, ByteRoot{Kind: "other"})
			}
		case *ssa.Alloc, *ssa.MakeSlice:
			out = append(out, ByteRoot{Kind: "local"})
		case *ssa.Const:
			out = append(out, ByteRoot{Kind: "local"})
		case *ssa.Call:
			n := calleeName(y.Common())
			if n == "builtin:append" {
				walk(y.Common().Args[0], d+1)
				return
			}
			out = append(out, ByteRoot{Kind: "call", Name: n})
		case *ssa.Extract:
			if c, ok := y.Tuple.(*ssa.Call); ok {
				out = append(out, ByteRoot{Kind: "call", Name: calleeName(c.Common())})
			} else {
				out = append(out, ByteRoot{Kind: "other"})
			}
		case *ssa.Global:
			out = append(out, ByteRoot{Kind: "global", Name: y.Name()})
		case *ssa.FreeVar:
			out = append(out, ByteRoot{Kind: "other", Name: "freevar " + y.Name()})
		default:
			out = append(out, ByteRoot{Kind: "other"})
		}
	}
	walk(v, 0)
	return out
}

type ByteWriters struct {
	c *Ctx
	// Direct writes per function (param roots unresolved).
	Direct map[*ssa.Function][]ByteWrite
	// WritesParam[fn][i]: fn (transitively) writes the bytes of parameter i.
	WritesParam map[*ssa.Function]map[int]bool
	cg          *callgraph.Graph
}

// stdWriters: external functions that write to a byte-slice argument (index in
// Common().Args for static calls; for invokes index in Args).
var stdByteWriters = map[string]int{
	"builtin:copy":                                        0,
	"(encoding/binary.bigEndian).PutUint16":               1,
	"(encoding/binary.bigEndian).PutUint32":               1,
	"(encoding/binary.bigEndian).PutUint64":               1,
	"(encoding/binary.littleEndian).PutUint16":            1,
	"(encoding/binary.littleEndian).PutUint32":            1,
	"(encoding/binary.littleEndian).PutUint64":            1,
	"invoke:hash.Hash.Sum":                                0,
	"invoke:crypto/cipher.Block.Encrypt":                  0,
	"invoke:crypto/cipher.Block.Decrypt":                  0,
	"invoke:io.Reader.Read":                               0,
	"io.ReadFull":                                         1,
	"crypto/rand.Read":                                    0,
	"(*crypto/cipher.cbcEncrypter).CryptBlocks":           1,
	"invoke:crypto/cipher.BlockMode.CryptBlocks":          0,
	"invoke:crypto/cipher.Stream.XORKeyStream":            0,
	"crypto/subtle.ConstantTimeCopy":                      1,
	"crypto/subtle.XORBytes":                              0,
	"encoding/binary.Write":                               -1,
	"encoding/hex.Encode":                                 0,
	"encoding/base64.(*Encoding).Encode":                  1,
	"invoke:encoding/binary.ByteOrder.PutUint16":          0,
	"invoke:encoding/binary.ByteOrder.PutUint32":          0,
	"invoke:encoding/binary.ByteOrder.PutUint64":          0,
	"invoke:encoding/binary.AppendByteOrder.AppendUint16": 0,
}

func NewByteWriters(c *Ctx) *ByteWriters {
	bw := &ByteWriters{c: c, Direct: map[*ssa.Function][]ByteWrite{}, WritesParam: map[*ssa.Function]map[int]bool{},
		cg: c.Prog.CallGraph()}
	var fns []*ssa.Function
	for fn := range c.Prog.AllFuncs() {
		if len(fn.Blocks) > 0 && inModule(fn) {
			fns = append(fns, fn)
		}
	}
	sort.Slice(fns, func(i, j int) bool { return FuncName(fns[i]) < FuncName(fns[j]) })
	for _, fn := range fns {
		for _, b := range fn.Blocks {
			for _, in := range b.Instrs {
				switch x := in.(type) {
				case *ssa.Store:
					ia, ok := x.Addr.(*ssa.IndexAddr)
					if !ok || !isByteSeq(ia.X.Type()) {
						continue
					}
					for _, r := range byteRoots(ia.X) {
						bw.Direct[fn] = append(bw.Direct[fn], ByteWrite{Fn: fn, Root: r, How: "element store", Pos: x.Pos()})
					}
				case ssa.CallInstruction:
					n := calleeName(x.Common())
					if n == "builtin:append" {
						a0 := x.Common().Args[0]
						if isByteSeq(a0.Type()) {
							for _, r := range byteRoots(a0) {
								if r.Kind != "local" {
									bw.Direct[fn] = append(bw.Direct[fn], ByteWrite{Fn: fn, Root: r, How: "append", Pos: x.Pos()})
								}
							}
						}
						continue
					}
					if i, ok := stdByteWriters[n]; ok && i >= 0 && i < len(x.Common().Args) {
						for _, r := range byteRoots(x.Common().Args[i]) {
							bw.Direct[fn] = append(bw.Direct[fn], ByteWrite{Fn: fn, Root: r, How: n, Pos: x.Pos()})
						}
					}
				}
			}
		}
	}
	// parameter summaries: fixpoint
	for _, fn := range fns {
		for _, w := range bw.Direct[fn] {
			if w.Root.Kind == "param" {
				if bw.WritesParam[fn] == nil {
					bw.WritesParam[fn] = map[int]bool{}
				}
				bw.WritesParam[fn][w.Root.Idx] = true
			}
		}
	}
	for changed, round := true, 0; changed && round < 12; round++ {
		changed = false
		for _, fn := range fns {
			for _, cs := range bw.callSites(fn) {
				for _, callee := range cs.callees {
					for pi := range bw.WritesParam[callee] {
						arg := cs.argFor(callee, pi)
						if arg == nil || !isByteSeq(arg.Type()) {
							continue
						}
						for _, r := range byteRoots(arg) {
							if r.Kind == "param" && !bw.WritesParam[fn][r.Idx] {
								if bw.WritesParam[fn] == nil {
									bw.WritesParam[fn] = map[int]bool{}
								}
								bw.WritesParam[fn][r.Idx] = true
								changed = true
							}
						}
					}
				}
			}
		}
	}
	return bw
}

type bwCallSite struct {
	in      ssa.CallInstruction
	callees []*ssa.Function
}

// argFor maps parameter index pi of callee to the argument value at the site.
func (cs bwCallSite) argFor(callee *ssa.Function, pi int) ssa.Value {
	com := cs.in.Common()
	if com.IsInvoke() {
		// callee.Params[0] is the receiver
		if pi == 0 {
			return com.Value
		}
		if pi-1 < len(com.Args) {
			return com.Args[pi-1]
		}
		return nil
	}
	if pi < len(com.Args) {
		return com.Args[pi]
	}
	return nil
}

func (bw *ByteWriters) callSites(fn *ssa.Function) []bwCallSite {
	node := bw.cg.Nodes[fn]
	bySite := map[ssa.CallInstruction][]*ssa.Function{}
	var order []ssa.CallInstruction
	if node != nil {
		for _, e := range node.Out {
			if e.Site == nil || e.Callee == nil || e.Callee.Func == nil {
				continue
			}
			if _, ok := bySite[e.Site]; !ok {
				order = append(order, e.Site)
			}
			bySite[e.Site] = append(bySite[e.Site], e.Callee.Func)
		}
	}
	var out []bwCallSite
	for _, s := range order {
		out = append(out, bwCallSite{in: s, callees: bySite[s]})
	}
	return out
}

// Closure returns the module functions reachable from root in the call graph.
func (bw *ByteWriters) Closure(root *ssa.Function, stop func(*ssa.Function) bool) []*ssa.Function {
	seen := map[*ssa.Function]bool{root: true}
	q := []*ssa.Function{root}
	for len(q) > 0 {
		f := q[0]
		q = q[1:]
		node := bw.cg.Nodes[f]
		if node == nil {
			continue
		}
		for _, e := range node.Out {
			g := e.Callee.Func
			if g == nil || seen[g] || len(g.Blocks) == 0 || !inModule(g) || (stop != nil && stop(g)) {
				continue
			}
			seen[g] = true
			q = append(q, g)
		}
		for _, an := range f.AnonFuncs {
			if !seen[an] {
				seen[an] = true
				q = append(q, an)
			}
		}
	}
	var out []*ssa.Function
	for f := range seen {
		out = append(out, f)
	}
	sort.Slice(out, func(i, j int) bool { return FuncName(out[i]) < FuncName(out[j]) })
	return out
}

// Resolved returns, for fn, the writes whose destination fn itself chose: its
// direct non-parameter writes plus the non-parameter arguments it hands to
// parameter-writing callees.
func (bw *ByteWriters) Resolved(fn *ssa.Function) []ByteWrite {
	var out []ByteWrite
	for _, w := range bw.Direct[fn] {
		if w.Root.Kind != "param" {
			out = append(out, w)
		}
	}
	for _, cs := range bw.callSites(fn) {
		for _, callee := range cs.callees {
			var pis []int
			for pi := range bw.WritesParam[callee] {
				pis = append(pis, pi)
			}
			sort.Ints(pis)
			for _, pi := range pis {
				arg := cs.argFor(callee, pi)
				if arg == nil || !isByteSeq(arg.Type()) {
					continue
				}
				for _, r := range byteRoots(arg) {
					if r.Kind != "param" {
						out = append(out, ByteWrite{Fn: fn, Root: r, How: "via " + FuncName(callee), Pos: cs.in.Pos()})
					}
				}
			}
		}
	}
	return out
}

func fieldArray(x ssa.Value, idx int) bool {
	t := x.Type()
	if p, ok := t.Underlying().(*types.Pointer); ok {
		t = p.Elem()
	}
	st, ok := t.Underlying().(*types.Struct)
	if !ok || idx >= st.NumFields() {
		return false
	}
	_, isArr := st.Field(idx).Type().Underlying().(*types.Array)
	return isArr
}
