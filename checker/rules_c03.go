package main

import (
	"fmt"
	"strings"

	"golang.org/x/tools/go/ssa"
)

func init() {
	register(&PropRule{
		ID:    "C03",
		Roots: []string{"./pkg/slayers/path/...", "./pkg/snet"},
		Explain: "Decides the structural necessary conditions of path reversal (what must hold for a reply to retrace the " +
			"request's interfaces in reverse order); acceptance by the routers on the way back is a property of " +
			"concrete MAC chains and is NOT decided. (R1) Decoded.Reverse, for a non-empty path: exchanges the " +
			"first and the last info field and segment length (exactly when there is more than one segment), " +
			"negates ConsDir of every info field i < NumINF, exchanges hop fields pairwise from both ends " +
			"(i from 0 up, j from NumHops-1 down, while i < j), and mirrors the pointers: CurrINF = NumINF - " +
			"CurrINF - 1, CurrHF = NumHops - CurrHF - 1; nothing else of the path is written. (R2) Raw.Reverse " +
			"= ToDecoded, Reverse, SerializeTo(own bytes), DecodeFromBytes(own bytes), failing on any error. " +
			"(R3) onehop.Path: an incomplete path (second hop without ingress) is not convertible; the " +
			"converted path has one segment of two hops in construction direction carrying the two hop fields " +
			"member by member and the info field's SegID/Timestamp; Reverse = ToSCIONDecoded, IncPath, " +
			"Reverse. (R4) DefaultReplyPather.ReplyPath decodes the raw path with its own type, takes the " +
			"SCION path of an EPIC path, and returns Reverse() of it, failing on every error.",
		Run: runC03,
	})
	setClaim("C03", claim{
		Text: "Store-level structure of Decoded.Reverse (swaps, ConsDir negation, mirrored pointers), Raw/one-hop/reply-pather " +
			"reversal pipelines.",
		Note: claimNote, Technique: "static analysis: store pairing with loop-index structure, guard dominance, call chaining",
		Ref: "DESIGN.md §0.5 C03"})
	df := "pkg/slayers/path/scion/decoded.go"
	addMutants(
		Mutant{Prop: "C03", Name: "consdir-not-flipped-for-last-segment", File: df,
			Old: `	for i := range s.NumINF {
		info := &s.InfoFields[i]`, New: `	for i := range s.NumINF - 1 {
		info := &s.InfoFields[i]`, Expect: "R1-reverse"},
		Mutant{Prop: "C03", Name: "seglen-not-swapped", File: df,
			Old: `		s.PathMeta.SegLen[0], s.PathMeta.SegLen[l] = s.PathMeta.SegLen[l], s.PathMeta.SegLen[0]`, New: ``, Expect: "R1-reverse"},
		Mutant{Prop: "C03", Name: "currhf-off-by-one", File: df,
			Old: `	s.PathMeta.CurrHF = uint8(s.NumHops) - s.PathMeta.CurrHF - 1`, New: `	s.PathMeta.CurrHF = uint8(s.NumHops) - s.PathMeta.CurrHF`, Expect: "R1-reverse"},
		Mutant{Prop: "C03", Name: "hop-swap-stops-early", File: df,
			Old: `	for i, j := 0, s.NumHops-1; i < j; i, j = i+1, j-1 {`, New: `	for i, j := 0, s.NumHops-2; i < j; i, j = i+1, j-1 {`, Expect: "R1-reverse"},
		Mutant{Prop: "C03", Name: "onehop-reverse-without-incpath", File: "pkg/slayers/path/onehop/onehop.go",
			Old: `	if err := sp.IncPath(); err != nil {
		return nil, serrors.Wrap("incrementing path", err)
	}
	return sp.Reverse()`, New: `	return sp.Reverse()`, Expect: "R3-onehop"},
		Mutant{Prop: "C03", Name: "onehop-hops-swapped", File: "pkg/slayers/path/onehop/onehop.go",
			Old: `				ConsIngress:        o.FirstHop.ConsIngress,`, New: `				ConsIngress:        o.SecondHop.ConsIngress,`, Expect: "R3-onehop"},
		Mutant{Prop: "C03", Name: "reply-path-not-reversed", File: "pkg/snet/reply_pather.go",
			Old: `	reversed, err := p.Reverse()
	if err != nil {
		return nil, serrors.Wrap("reversing path", err)
	}
	return RawReplyPath{
		Path: reversed,
	}, nil`, New: `	if _, err := p.Reverse(); err != nil {
		return nil, serrors.Wrap("reversing path", err)
	}
	return RawReplyPath{
		Path: p,
	}, nil`, Expect: "R4-reply-pather"},
	)
}

func runC03(c *Ctx) {
	sp := "pkg/slayers/path/scion."
	if v := c.View("(*" + sp + "Decoded).Reverse"); v != nil {
		rule := "R1-reverse"
		fn := v.Fn
		e := NewE1(c, fn)
		last := "(recv.Base.NumINF - 1)"
		multi := e.AtomGuard("more than one segment", "+lt(1, recv.Base.NumINF)")
		nonEmpty := e.AtomGuard("non-empty path", "-eq(recv.Base.NumINF, 0)")
		type sw struct{ a, b string }
		want := map[string]string{
			"recv.InfoFields[0]":               "recv.InfoFields[" + last + "]",
			"recv.InfoFields[" + last + "]":    "recv.InfoFields[0]",
			"recv.Base.PathMeta.SegLen[0]":             "recv.Base.PathMeta.SegLen[" + last + "]",
			"recv.Base.PathMeta.SegLen[" + last + "]": "recv.Base.PathMeta.SegLen[0]",
		}
		got := map[string]bool{}
		var segStores []ssa.Instruction
		var other []string
		for _, st := range v.Stores("recv.*") {
			switch {
			case want[st.Addr] != "":
				if st.Val == want[st.Addr] {
					got[st.Addr] = true
					segStores = append(segStores, st.In)
				} else {
					c.Fail(rule, v.Name()+":store:"+st.Addr, st.In.Pos(), "stores "+st.Val+"; required "+want[st.Addr])
				}
			case strings.HasSuffix(st.Addr, ".ConsDir"), strings.HasPrefix(st.Addr, "recv.HopFields["),
				st.Addr == "recv.Base.PathMeta.CurrINF", st.Addr == "recv.Base.PathMeta.CurrHF":
			default:
				other = append(other, st.Addr)
			}
		}
		c.Check(len(got) == 4 && len(other) == 0, rule, v.Name()+":segment-swap", fn.Pos(), fmt.Sprintf(
			"first and last info field and segment length are exchanged (%d of 4 stores); other stores into the path: %v", len(got), other))
		if len(segStores) > 0 {
			e.Require(rule, "segment-swap-guard", nil, segStores, nonEmpty, multi)
		}
		// ConsDir negation over all i < NumINF
		okNeg := false
		var negStores []ssa.Instruction
		for _, st := range v.Stores("recv.InfoFields[*].ConsDir") {
			if st.Val == "!"+st.Addr {
				okNeg = true
				negStores = append(negStores, st.In)
				// the index: phi starting at 0, stepping +1, bounded by NumINF
				ix := indexOf(st.In.Addr)
				okNeg = okNeg && loopIndex(ix, 0, 1)
			}
		}
		c.Check(okNeg && len(negStores) == 1, rule, v.Name()+":consdir-negated", fn.Pos(), "ConsDir = !ConsDir for i = 0, 1, ... ")
		e.Require(rule, "consdir-range", nil, e.SuccessReturns(), e.AtomGuard("all info fields visited", "-lt(*, recv.Base.NumINF)"))
		// the loop covers every i < NumINF: entered iff 0 < NumINF and left only at i+1 >= NumINF
		okBounds := true
		for _, in := range negStores {
			b := in.Block()
			n := 0
			for i := range b.Succs {
				lits, _ := edgeLits(b, i, nil)
				for _, l := range lits {
					if l.Kind == "lt" && strings.HasSuffix(l.String(v.S), ", recv.Base.NumINF)") {
						n++
					}
				}
			}
			okBounds = okBounds && n == 2
		}
		c.Check(okBounds, rule, v.Name()+":consdir-loop-bound", fn.Pos(), "the negation loop continues exactly while i+1 < NumINF")
		// hop field swap
		var hs []StoreInfo
		for _, st := range v.Stores("recv.HopFields[*]") {
			hs = append(hs, st)
		}
		okHop := len(hs) == 2
		if okHop {
			i0, i1 := indexOf(hs[0].In.Addr), indexOf(hs[1].In.Addr)
			okHop = hs[0].Val == hs[1].Addr && hs[1].Val == hs[0].Addr && i0 != nil && i1 != nil && i0 != i1
			up, down := i0, i1
			if !loopIndex(up, 0, 1) {
				up, down = i1, i0
			}
			okHop = okHop && loopIndex(up, 0, 1) && loopIndexFrom(down, "(recv.Base.NumHops - 1)", -1, v.S)
			if okHop {
				g := Guard{Name: "i < j", Match: func(l Lit) bool { return l.Kind == "lt" && l.Pos && l.X == up && l.Y == down }}
				e.Require(rule, "hop-swap-while-i<j", nil, []ssa.Instruction{hs[0].In, hs[1].In}, g)
				e.Require(rule, "hop-swap-complete", nil, e.SuccessReturns(),
					Guard{Name: "!(i < j)", Match: func(l Lit) bool { return l.Kind == "lt" && !l.Pos && l.X == up && l.Y == down }})
			}
		}
		c.Check(okHop, rule, v.Name()+":hop-swap", fn.Pos(), "HopFields[i] and HopFields[j] are exchanged, i from 0 upwards, j from NumHops-1 downwards")
		v.RequireStore(rule, 1, "recv.Base.PathMeta.CurrINF", "((uint8(recv.Base.NumINF) - recv.Base.PathMeta.CurrINF) - 1)")
		v.RequireStore(rule, 1, "recv.Base.PathMeta.CurrHF", "((uint8(recv.Base.NumHops) - recv.Base.PathMeta.CurrHF) - 1)")
		okRet := true
		for _, r := range e.SuccessReturns() {
			okRet = okRet && strings.Contains(v.S.Sym(RetVal(r.(*ssa.Return), 0)), "recv")
		}
		c.Check(okRet, rule, v.Name()+":returns-itself", fn.Pos(), "returns the reversed path")
		e.Require(rule, "non-empty", nil, e.SuccessReturns(), nonEmpty)
	}
	if v := c.View("(*" + sp + "Raw).Reverse"); v != nil {
		rule := "R2-raw-reverse"
		e := NewE1(c, v.Fn)
		td := "(*" + sp + "Raw).ToDecoded(recv)"
		v.RequireCallArgs(rule, 1, "(*"+sp+"Decoded).Reverse", td+"#0")
		v.RequireCallArgs(rule, 1, "invoke:pkg/slayers/path.Path.SerializeTo", "(*"+sp+"Decoded).Reverse("+td+"#0)#0", "recv.Raw")
		v.RequireCallArgs(rule, 1, "(*"+sp+"Raw).DecodeFromBytes", "recv", "recv.Raw")
		e.Require(rule, "success", nil, e.SuccessReturns(),
			e.CallGuard(PassErrNil, "(*"+sp+"Raw).ToDecoded"), e.CallGuard(PassErrNil, "(*"+sp+"Decoded).Reverse"),
			e.CallGuard(PassErrNil, "invoke:pkg/slayers/path.Path.SerializeTo"))
	}
	op := "pkg/slayers/path/onehop."
	if v := c.View("(*" + op + "Path).ToSCIONDecoded"); v != nil {
		rule := "R3-onehop"
		e := NewE1(c, v.Fn)
		e.Require(rule, "complete-path-only", nil, e.SuccessReturns(), e.AtomGuard("second hop has ingress", "-eq(recv.SecondHop.ConsIngress, 0)"))
		// the two hop fields are copied member by member, in order
		hopLit := map[int]map[string]string{}
		for _, st := range v.Stores("*.HopFields") {
			if els, ok := decodeSliceLit(v.S, st.In.Val); ok {
				for k, el := range els {
					hopLit[k] = el
				}
			}
		}
		okHops := len(hopLit) == 2
		for k, src := range map[int]string{0: "recv.FirstHop.", 1: "recv.SecondHop."} {
			for _, f := range []string{"IngressRouterAlert", "EgressRouterAlert", "ConsIngress", "ConsEgress", "ExpTime", "Mac"} {
				if hopLit[k][f] != src+f {
					okHops = false
					c.Fail(rule, v.Name()+fmt.Sprintf(":hop-%d.%s", k, f), v.Fn.Pos(), "is "+hopLit[k][f]+"; required "+src+f)
				}
			}
		}
		if okHops {
			c.OK(rule, v.Name()+":hop-fields", v.Fn.Pos(), "hop 0 = FirstHop, hop 1 = SecondHop, member by member")
		}
		v.RequireStore(rule, 1, "*.ConsDir", "true")
		v.RequireStore(rule, 1, "*.SegID", "recv.Info.SegID")
		v.RequireStore(rule, 1, "*.Timestamp", "recv.Info.Timestamp")
		v.RequireStore(rule, 1, "*.NumHops", "2")
		v.RequireStore(rule, 1, "*.NumINF", "1")
	}
	if v := c.View("(*" + op + "Path).Reverse"); v != nil {
		rule := "R3-onehop"
		e := NewE1(c, v.Fn)
		conv := "(*" + op + "Path).ToSCIONDecoded(recv)#0"
		v.RequireCallArgs(rule, 1, "(*"+sp+"Base).IncPath", conv+".Base")
		v.RequireCallArgs(rule, 1, "(*"+sp+"Decoded).Reverse", conv)
		revs := e.CallSites("(*" + sp + "Decoded).Reverse")
		e.Require(rule, "reverse-after-increment", nil, revs,
			e.CallGuard(PassErrNil, "(*"+op+"Path).ToSCIONDecoded"), e.CallGuard(PassErrNil, "(*"+sp+"Base).IncPath"))
	}
	if v := c.View("(pkg/snet.DefaultReplyPather).ReplyPath"); v != nil {
		rule := "R4-reply-pather"
		e := NewE1(c, v.Fn)
		v.RequireCallArgs(rule, 1, "pkg/slayers/path.NewPath", "arg0.PathType")
		v.RequireCallArgs(rule, 1, "invoke:pkg/slayers/path.Path.DecodeFromBytes", "pkg/slayers/path.NewPath(arg0.PathType)#0", "arg0.Raw")
		// what is returned wraps the result of Reverse()
		var rev *ssa.Call
		for _, ci := range v.Calls("invoke:pkg/slayers/path.Path.Reverse") {
			rev = ci.In.(*ssa.Call)
		}
		ok := rev != nil
		if ok {
			ok = false
			for _, st := range v.Stores("local:complit.Path") {
				if ex, isEx := st.In.Val.(*ssa.Extract); isEx && ex.Tuple == ssa.Value(rev) && ex.Index == 0 {
					ok = true
				}
			}
			// the reversed object is the decoded path (or the SCION path inside an EPIC path)
			recvSym := v.S.Sym(rev.Common().Value)
			ok = ok && strings.Contains(recvSym, "pkg/slayers/path.NewPath(arg0.PathType)#0") && strings.Contains(recvSym, "ScionPath")
		}
		c.Check(ok, rule, v.Name()+":returns-reversed", v.Fn.Pos(), "RawReplyPath.Path = (decoded path, or EPIC's ScionPath).Reverse()")
		e.Require(rule, "success", nil, e.SuccessReturns(),
			e.CallGuard(PassErrNil, "pkg/slayers/path.NewPath"), e.CallGuard(PassErrNil, "invoke:pkg/slayers/path.Path.DecodeFromBytes"),
			e.CallGuard(PassErrNil, "invoke:pkg/slayers/path.Path.Reverse"))
	}
}

// loopIndex: v is a loop variable (phi) starting at the constant start and
// advancing by step.
func loopIndex(v ssa.Value, start, step int64) bool {
	phi, ok := v.(*ssa.Phi)
	if !ok {
		// rotated `for range n` loops index with (phi + 1) where phi starts at -1
		if bo, isB := v.(*ssa.BinOp); isB && bo.Op.String() == "+" {
			if k, isK := foldInt(bo.Y); isK && k == 1 {
				return loopIndex(bo.X, start-1, step)
			}
		}
		return false
	}
	init, adv := false, false
	for _, ed := range phi.Edges {
		if k, isK := foldInt(ed); isK && k == start {
			init = true
			continue
		}
		if bo, isB := ed.(*ssa.BinOp); isB {
			k, isK := foldInt(bo.Y)
			if isK && ((bo.Op.String() == "+" && k == step) || (bo.Op.String() == "-" && k == -step)) {
				if bo.X == ssa.Value(phi) {
					adv = true
				} else if inner, isInner := bo.X.(*ssa.BinOp); isInner && inner.X == ssa.Value(phi) {
					adv = true
				}
			}
		}
	}
	return init && adv
}

// loopIndexFrom: like loopIndex with a symbolic start.
func loopIndexFrom(v ssa.Value, start string, step int64, s *Symer) bool {
	phi, ok := v.(*ssa.Phi)
	if !ok {
		return false
	}
	init, adv := false, false
	for _, ed := range phi.Edges {
		if bo, isB := ed.(*ssa.BinOp); isB && bo.X == ssa.Value(phi) {
			k, isK := foldInt(bo.Y)
			if isK && ((bo.Op.String() == "+" && k == step) || (bo.Op.String() == "-" && k == -step)) {
				adv = true
				continue
			}
		}
		if s.Sym(ed) == start {
			init = true
		}
	}
	return init && adv
}
