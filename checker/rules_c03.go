package main

import (
	"fmt"
	"go/types"
	"sort"
	"strings"

	"golang.org/x/tools/go/ssa"
)

func init() {
	register(&PropRule{
		ID:    "C03",
		Roots: []string{"./pkg/slayers/path/...", "./pkg/snet", "./router"},
		Explain: "Decides the structural necessary conditions of path reversal (what must hold for a reply to retrace the " +
			"request's interfaces in reverse order); acceptance by the routers on the way back is a property of " +
			"concrete MAC chains and is NOT decided. (R1) Decoded.Reverse, for a non-empty path: exchanges the " +
			"first and the last info field and segment length (exactly when there is more than one segment), " +
			"negates ConsDir of every info field i < NumINF, exchanges hop fields pairwise from both ends " +
			"(i from 0 up, j from NumHops-1 down, while i < j), and mirrors the pointers: CurrINF = NumINF - " +
			"CurrINF - 1, CurrHF = NumHops - CurrHF - 1; nothing else of the path is written. (R2) Raw.Reverse " +
			"= ToDecoded, Reverse, SerializeTo(own bytes), DecodeFromBytes(own bytes), failing on any error. " +
			"(R3) onehop.Path: an incomplete path (second hop without ingress) is not convertible; the " +
			"converted path has one segment of two hops in construction direction carrying the two hop fields " +
			"member by member and the info field's SegID/Timestamp; Reverse = ToSCIONDecoded, IncPath, " +
			"Reverse. (R4) DefaultReplyPather.ReplyPath decodes the raw path with its own type, takes the " +
			"SCION path of an EPIC path, and returns Reverse() of it, failing on every error.",
		Run: runC03,
	})
	setClaim("C03", claim{
		Text: "Store-level structure of Decoded.Reverse (swaps, ConsDir negation, mirrored pointers), Raw/one-hop/reply-pather " +
			"reversal pipelines.",
		Note: claimNote, Technique: "static analysis: store pairing with loop-index structure, guard dominance, call chaining",
		Ref: "DESIGN.md §0.5 C03"})
	df := "pkg/slayers/path/scion/decoded.go"
	addMutants(
		Mutant{Prop: "C03", Name: "consdir-not-flipped-for-last-segment", File: df,
			Old: `	for i := range s.NumINF {
		info := &s.InfoFields[i]`, New: `	for i := range s.NumINF - 1 {
		info := &s.InfoFields[i]`, Expect: "R1-reverse"},
		Mutant{Prop: "C03", Name: "seglen-not-swapped", File: df,
			Old: `		s.PathMeta.SegLen[0], s.PathMeta.SegLen[l] = s.PathMeta.SegLen[l], s.PathMeta.SegLen[0]`, New: ``, Expect: "R1-reverse"},
		Mutant{Prop: "C03", Name: "currhf-off-by-one", File: df,
			Old: `	s.PathMeta.CurrHF = uint8(s.NumHops) - s.PathMeta.CurrHF - 1`, New: `	s.PathMeta.CurrHF = uint8(s.NumHops) - s.PathMeta.CurrHF`, Expect: "R1-reverse"},
		Mutant{Prop: "C03", Name: "hop-swap-stops-early", File: df,
			Old: `	for i, j := 0, s.NumHops-1; i < j; i, j = i+1, j-1 {`, New: `	for i, j := 0, s.NumHops-2; i < j; i, j = i+1, j-1 {`, Expect: "R1-reverse"},
		Mutant{Prop: "C03", Name: "onehop-reverse-without-incpath", File: "pkg/slayers/path/onehop/onehop.go",
			Old: `	if err := sp.IncPath(); err != nil {
		return nil, serrors.Wrap("incrementing path", err)
	}
	return sp.Reverse()`, New: `	return sp.Reverse()`, Expect: "R3-onehop"},
		Mutant{Prop: "C03", Name: "onehop-hops-swapped", File: "pkg/slayers/path/onehop/onehop.go",
			Old: `				ConsIngress:        o.FirstHop.ConsIngress,`, New: `				ConsIngress:        o.SecondHop.ConsIngress,`, Expect: "R3-onehop"},
		Mutant{Prop: "C03", Name: "reply-path-not-reversed", File: "pkg/snet/reply_pather.go",
			Old: `	reversed, err := p.Reverse()
	if err != nil {
		return nil, serrors.Wrap("reversing path", err)
	}
	return RawReplyPath{
		Path: reversed,
	}, nil`, New: `	if _, err := p.Reverse(); err != nil {
		return nil, serrors.Wrap("reversing path", err)
	}
	return RawReplyPath{
		Path: p,
	}, nil`, Expect: "R4-reply-pather"},
	)
}

func runC03(c *Ctx) {
	routerSegIDWriteBack(c, "R5-router-writes-segid-back")
	c03DecodedPathOwnsBytes(c)
	sp := "pkg/slayers/path/scion."
	if v := c.View("(*" + sp + "Decoded).Reverse"); v != nil {
		rule := "R1-reverse"
		fn := v.Fn
		e := NewE1(c, fn)
		nonEmpty := e.AtomGuard("non-empty path", "-eq(recv.Base.NumINF, 0)")
		c03ReverseTable(c, v, rule)
		okRet := true
		for _, r := range e.SuccessReturns() {
			okRet = okRet && strings.Contains(v.S.Sym(RetVal(r.(*ssa.Return), 0)), "recv")
		}
		c.Check(okRet, rule, v.Name()+":returns-itself", fn.Pos(), "returns the reversed path")
		e.Require(rule, "non-empty", nil, e.SuccessReturns(), nonEmpty)
	}
	if v := c.View("(*" + sp + "Raw).Reverse"); v != nil {
		rule := "R2-raw-reverse"
		e := NewE1(c, v.Fn)
		td := "(*" + sp + "Raw).ToDecoded(recv)"
		v.RequireCallArgs(rule, 1, "(*"+sp+"Decoded).Reverse", td+"#0")
		v.RequireCallArgs(rule, 1, "invoke:pkg/slayers/path.Path.SerializeTo", "(*"+sp+"Decoded).Reverse("+td+"#0)#0", "recv.Raw")
		v.RequireCallArgs(rule, 1, "(*"+sp+"Raw).DecodeFromBytes", "recv", "recv.Raw")
		e.Require(rule, "success", nil, e.SuccessReturns(),
			e.CallGuard(PassErrNil, "(*"+sp+"Raw).ToDecoded"), e.CallGuard(PassErrNil, "(*"+sp+"Decoded).Reverse"),
			e.CallGuard(PassErrNil, "invoke:pkg/slayers/path.Path.SerializeTo"))
	}
	onehopReversalRules(c, "R3-onehop")
	if v := c.View("(pkg/snet.DefaultReplyPather).ReplyPath"); v != nil {
		rule := "R4-reply-pather"
		e := NewE1(c, v.Fn)
		v.RequireCallArgs(rule, 1, "pkg/slayers/path.NewPath", "arg0.PathType")
		v.RequireCallArgs(rule, 1, "invoke:pkg/slayers/path.Path.DecodeFromBytes", "pkg/slayers/path.NewPath(arg0.PathType)#0", "arg0.Raw")
		// what is returned wraps the result of Reverse()
		var rev *ssa.Call
		for _, ci := range v.Calls("invoke:pkg/slayers/path.Path.Reverse") {
			rev = ci.In.(*ssa.Call)
		}
		ok := rev != nil
		if ok {
			ok = false
			for _, st := range v.Stores("local:complit.Path") {
				if ex, isEx := st.In.Val.(*ssa.Extract); isEx && ex.Tuple == ssa.Value(rev) && ex.Index == 0 {
					ok = true
				}
			}
			// the reversed object is the decoded path (or the SCION path inside an EPIC path)
			recvSym := expandSym(v.S, rev.Common().Value, 2)
			ok = ok && strings.Contains(recvSym, "pkg/slayers/path.NewPath(arg0.PathType)#0") && strings.Contains(recvSym, "ScionPath")
		}
		c.Check(ok, rule, v.Name()+":returns-reversed", v.Fn.Pos(), "RawReplyPath.Path = (decoded path, or EPIC's ScionPath).Reverse()")
		e.Require(rule, "success", nil, e.SuccessReturns(),
			e.CallGuard(PassErrNil, "pkg/slayers/path.NewPath"), e.CallGuard(PassErrNil, "invoke:pkg/slayers/path.Path.DecodeFromBytes"),
			e.CallGuard(PassErrNil, "invoke:pkg/slayers/path.Path.Reverse"))
	}
}

// loopIndex: v is a loop variable (phi) starting at the constant start and
// advancing by step.
func loopIndex(v ssa.Value, start, step int64) bool {
	phi, ok := v.(*ssa.Phi)
	if !ok {
		// rotated `for range n` loops index with (phi + 1) where phi starts at -1
		if bo, isB := v.(*ssa.BinOp); isB && bo.Op.String() == "+" {
			if k, isK := foldInt(bo.Y); isK && k == 1 {
				return loopIndex(bo.X, start-1, step)
			}
		}
		return false
	}
	init, adv := false, false
	for _, ed := range phi.Edges {
		if k, isK := foldInt(ed); isK && k == start {
			init = true
			continue
		}
		if bo, isB := ed.(*ssa.BinOp); isB {
			k, isK := foldInt(bo.Y)
			if isK && ((bo.Op.String() == "+" && k == step) || (bo.Op.String() == "-" && k == -step)) {
				if bo.X == ssa.Value(phi) {
					adv = true
				} else if inner, isInner := bo.X.(*ssa.BinOp); isInner && inner.X == ssa.Value(phi) {
					adv = true
				}
			}
		}
	}
	return init && adv
}

// loopIndexFrom: like loopIndex with a symbolic start.
func loopIndexFrom(v ssa.Value, start string, step int64, s *Symer) bool {
	phi, ok := v.(*ssa.Phi)
	if !ok {
		return false
	}
	init, adv := false, false
	for _, ed := range phi.Edges {
		if bo, isB := ed.(*ssa.BinOp); isB && bo.X == ssa.Value(phi) {
			k, isK := foldInt(bo.Y)
			if isK && ((bo.Op.String() == "+" && k == step) || (bo.Op.String() == "-" && k == -step)) {
				adv = true
				continue
			}
		}
		if s.Sym(ed) == start {
			init = true
		}
	}
	return init && adv
}


// c03ReverseTable decides WHAT Decoded.Reverse leaves in the path, by abstract
// evaluation over the symbolic store (E3, DynMemory): for every number of
// segments 0..3 and of hops 0..5 the loops are unrolled by constant
// propagation and the final content of every written location is compared with
// the reversal: info field k = initial info field n-1-k with ConsDir negated,
// SegLen[k] = initial SegLen[n-1-k], hop field k = initial hop field h-1-k,
// CurrINF = n-1-CurrINF, CurrHF = h-1-CurrHF, nothing else written. How the
// function is written (swap loops, helper methods, index arithmetic) does not
// matter.
func c03ReverseTable(c *Ctx, v *FnView, rule string) {
	infoFields := structFieldNames(c, "pkg/slayers/path.InfoField")
	hopFields := structFieldNames(c, "pkg/slayers/path.HopField")
	c.Check(len(infoFields) >= 4 && len(hopFields) >= 5, rule, v.Name()+":field-lists", v.Fn.Pos(),
		fmt.Sprintf("InfoField has %d members, HopField %d", len(infoFields), len(hopFields)))
	atoi := func(s string) int { var x int; fmt.Sscan(s, &x); return x }
	RunTable(c, &TableSpec{
		Rule: rule, Fn: v.Fn, Depth: 3, DynMemory: true,
		NoInline: []string{"pkg/private/serrors.*"},
		Atoms: []Atom{
			{Name: "n", Pats: []string{"recv.Base.NumINF"}, Domain: []string{"0", "1", "2", "3"}},
			{Name: "h", Pats: []string{"recv.Base.NumHops"}, Domain: []string{"0", "1", "2", "3", "4", "5"}},
			{Name: "ci", Pats: []string{"recv.Base.PathMeta.CurrINF"}, Domain: []string{"0", "1", "2"}},
			{Name: "ch", Pats: []string{"recv.Base.PathMeta.CurrHF"}, Domain: []string{"0", "1", "4"}},
		},
		Oracle: func(a map[string]string) map[string]string {
			if a["n"] == "0" {
				return map[string]string{"ret1": "sym:*"}
			}
			return map[string]string{"ret1": "nil", "ret0": "sym:*recv*"}
		},
		CheckMem: func(a map[string]string, mem map[string]string) string {
			n, h, ci, ch := atoi(a["n"]), atoi(a["h"]), atoi(a["ci"]), atoi(a["ch"])
			if n == 0 {
				if len(mem) > 0 {
					return fmt.Sprintf("an empty path is rejected but %d location(s) were written", len(mem))
				}
				return ""
			}
			// effective content of a location: its own last store, else the matching part
			// of the closest enclosing location that was stored as a whole, else itself
			eff := func(loc string) string {
				if val, ok := mem[loc]; ok {
					return strings.TrimPrefix(val, "sym:")
				}
				for i := len(loc) - 1; i > 0; i-- {
					if loc[i] == '.' || loc[i] == '[' {
						if val, ok := mem[loc[:i]]; ok && strings.HasPrefix(val, "sym:") {
							return strings.TrimPrefix(val, "sym:") + loc[i:]
						}
					}
				}
				return loc
			}
			expect := map[string]string{}
			for k := 0; k < n; k++ {
				for _, f := range infoFields {
					src := fmt.Sprintf("recv.InfoFields[%d].%s", n-1-k, f)
					if f == "ConsDir" {
						src = "!" + src
					}
					expect[fmt.Sprintf("recv.InfoFields[%d].%s", k, f)] = src
				}
				expect[fmt.Sprintf("recv.Base.PathMeta.SegLen[%d]", k)] = fmt.Sprintf("recv.Base.PathMeta.SegLen[%d]", n-1-k)
			}
			for k := 0; k < h; k++ {
				for _, f := range hopFields {
					expect[fmt.Sprintf("recv.HopFields[%d].%s", k, f)] = fmt.Sprintf("recv.HopFields[%d].%s", h-1-k, f)
				}
			}
			expect["recv.Base.PathMeta.CurrINF"] = fmt.Sprint(int(uint8(n) - uint8(ci) - 1))
			expect["recv.Base.PathMeta.CurrHF"] = fmt.Sprint(int(uint8(h) - uint8(ch) - 1))
			var locs []string
			for loc := range expect {
				locs = append(locs, loc)
			}
			sort.Strings(locs)
			for _, loc := range locs {
				if got := eff(loc); got != expect[loc] {
					return fmt.Sprintf("after Reverse %s holds %s, required %s", loc, got, expect[loc])
				}
			}
			// nothing else is written
			for loc := range mem {
				covered := false
				for e := range expect {
					if e == loc || strings.HasPrefix(e, loc+".") || strings.HasPrefix(e, loc+"[") || strings.HasPrefix(loc, e+"[") {
						covered = true
						break
					}
				}
				if !covered {
					return "writes " + loc + ", which is not part of the reversal"
				}
			}
			return ""
		},
	})
}

// structFieldNames lists the members of a named struct type of the module.
func structFieldNames(c *Ctx, q string) []string {
	pkgRel, name, ok := splitQual(q)
	if !ok {
		return nil
	}
	p := c.Prog.Pkgs[modPath+"/"+pkgRel]
	if p == nil || p.Types == nil {
		return nil
	}
	obj := p.Types.Scope().Lookup(name)
	if obj == nil {
		return nil
	}
	st, ok := obj.Type().Underlying().(*types.Struct)
	if !ok {
		return nil
	}
	var out []string
	for i := 0; i < st.NumFields(); i++ {
		out = append(out, canonFieldName(obj.Type(), st.Field(i).Name()))
	}
	return out
}


// onehopReversalRules: a one-hop path is reversed by converting it into a
// one-segment SCION path (both hop fields member by member, construction
// direction, segment id and timestamp of the info field, NO peering flag), moving
// it to the second hop and reversing that. Used by C03 and C12.
func onehopReversalRules(c *Ctx, rule string) {
	sp := "pkg/slayers/path/scion."
	op := "pkg/slayers/path/onehop."
	if v := c.View("(*" + op + "Path).ToSCIONDecoded"); v != nil {
				e := NewE1(c, v.Fn)
		e.Require(rule, "complete-path-only", nil, e.SuccessReturns(), e.AtomGuard("second hop has ingress", "-eq(recv.SecondHop.ConsIngress, 0)"))
		// the two hop fields are copied member by member, in order
		hopLit := map[int]map[string]string{}
		for _, st := range v.Stores("*.HopFields") {
			if els, ok := decodeSliceLit(v.S, st.In.Val); ok {
				for k, el := range els {
					hopLit[k] = el
				}
			}
		}
		okHops := len(hopLit) == 2
		for k, src := range map[int]string{0: "recv.FirstHop.", 1: "recv.SecondHop."} {
			if hopLit[k][""] == strings.TrimSuffix(src, ".") {
				continue // the hop field is copied as a whole
			}
			for _, f := range []string{"IngressRouterAlert", "EgressRouterAlert", "ConsIngress", "ConsEgress", "ExpTime", "Mac"} {
				if hopLit[k][f] != src+f {
					okHops = false
					c.Fail(rule, v.Name()+fmt.Sprintf(":hop-%d.%s", k, f), v.Fn.Pos(), "is "+hopLit[k][f]+"; required "+src+f)
				}
			}
		}
		if okHops {
			c.OK(rule, v.Name()+":hop-fields", v.Fn.Pos(), "hop 0 = FirstHop, hop 1 = SecondHop, member by member")
		}
		v.RequireStore(rule, 1, "*.ConsDir", "true")
		v.RequireStore(rule, 1, "*.SegID", "recv.Info.SegID")
		v.RequireStore(rule, 1, "*.Timestamp", "recv.Info.Timestamp")
		v.RequireStore(rule, 1, "*.NumHops", "2")
		v.RequireStore(rule, 1, "*.NumINF", "1")
	}
	if v := c.View("(*" + op + "Path).Reverse"); v != nil {
				e := NewE1(c, v.Fn)
		conv := "(*" + op + "Path).ToSCIONDecoded(recv)#0"
		v.RequireCallArgs(rule, 1, "(*"+sp+"Base).IncPath", conv+".Base")
		v.RequireCallArgs(rule, 1, "(*"+sp+"Decoded).Reverse", conv)
		revs := e.CallSites("(*" + sp + "Decoded).Reverse")
		e.Require(rule, "reverse-after-increment", nil, revs,
			e.CallGuard(PassErrNil, "(*"+op+"Path).ToSCIONDecoded"), e.CallGuard(PassErrNil, "(*"+sp+"Base).IncPath"))
	}
}
