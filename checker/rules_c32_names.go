package main

import (
	"fmt"
	"strings"

	"golang.org/x/tools/go/ssa"
)

// C32, "nothing added or removed in a regular update": validateRegular and
// detectNewVoters match the successor's certificates to the predecessor's by
// subject (certMap.find). Equal counts plus "every successor certificate has a
// predecessor of the same subject" prove a bijection only if no two certificates
// of one class in the successor have the same subject UNDER THE SAME EQUALITY.
// TRC.Validate's uniqueSubject is that clause. The two sites are siblings: they
// must use the same comparison.
//
// Rule U1: uniqueSubject compares subjects with equalName(x.Subject, y.Subject),
// every pair found equal ends in an error (fail-stop), and it looks at no other
// representation of the name (RawSubject, String()); certMap.find compares with
// the same function on the same members.
func init() {
	addMutants(
		Mutant{Prop: "C32", Name: "unique-subject-by-raw-bytes", File: "pkg/scrypto/cppki/trc.go",
			Old: `			if equalName(a.Subject, b.Subject) {`, New: `			if bytes.Equal(a.RawSubject, b.RawSubject) {`,
			Expect: "U1-subject-equality-agreement"},
		Mutant{Prop: "C32", Name: "find-by-common-name", File: "pkg/scrypto/cppki/trc.go",
			Old: `		if !equalName(pred.Subject, cert.Subject) {`, New: `		if pred.Subject.CommonName != cert.Subject.CommonName {`,
			Expect: "U1-subject-equality-agreement"},
	)
}

func c32SubjectEquality(c *Ctx) {
	rule := "U1-subject-equality-agreement"
	pk := "pkg/scrypto/cppki."
	eq := pk + "equalName"
	for _, q := range []string{pk + "uniqueSubject", "(" + pk + "certMap).find"} {
		v := c.View(q)
		if v == nil {
			continue
		}
		nEq, other := 0, []string{}
		for _, b := range v.Fn.Blocks {
			for _, in := range b.Instrs {
				switch x := in.(type) {
				case ssa.CallInstruction:
					if calleeName(x.Common()) == eq {
						a0, a1 := v.S.Sym(x.Common().Args[0]), v.S.Sym(x.Common().Args[1])
						if strings.HasSuffix(a0, ".Subject") && strings.HasSuffix(a1, ".Subject") {
							nEq++
						} else {
							other = append(other, "equalName("+a0+", "+a1+")")
						}
					}
				case *ssa.FieldAddr:
					if f := fieldName(x.X.Type(), x.Field); f == "RawSubject" || f == "RawIssuer" {
						other = append(other, "reads "+f)
					}
				}
			}
		}
		c.Check(nEq >= 1 && len(other) == 0, rule, v.Name()+":compares-with-equalName", v.Fn.Pos(), fmt.Sprintf(
			"%d comparison(s) equalName(x.Subject, y.Subject); other name representations consulted: %v", nEq, other))
	}
	if v := c.View(pk + "uniqueSubject"); v != nil {
		e := NewE1(c, v.Fn)
		e.FailStop(rule, "equal-subjects-rejected", 1, Guard{Name: "subjects differ", Match: func(l Lit) bool {
			return wild("-true("+eq+"(*.Subject, *.Subject))", l.String(v.S))
		}})
	}
}
