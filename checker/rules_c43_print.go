package main

import (
	"fmt"
	"go/constant"
	"strings"

	"golang.org/x/tools/go/ssa"
)

// C43, printing then parsing: BuildClassTree(cond.String()) must give a condition
// that evaluates like cond (the gateway copies traffic matchers exactly that way).
// The parser is generated from the grammar; what the printers emit is in the
// source. Rule P1 freezes, per printer, the text form the grammar's token for that
// predicate accepts and the members that fill it - ALL of them, unconditionally:
// "srcport=%d-%d" with MinPort, MaxPort prints an inverted range as the inverted
// range it is (matching nothing), not as a single port.
func init() {
	addMutants(
		Mutant{Prop: "C43", Name: "single-port-short-form-for-inverted-range", File: "gateway/pktcls/pred_port.go",
			Old: `	return fmt.Sprintf("srcport=%d-%d", m.MinPort, m.MaxPort)`,
			New: `	if m.MaxPort <= m.MinPort {
		return fmt.Sprintf("srcport=%d", m.MinPort)
	}
	return fmt.Sprintf("srcport=%d-%d", m.MinPort, m.MaxPort)`, Expect: "P1-printer-forms"},
		Mutant{Prop: "C43", Name: "dst-printed-as-src", File: "gateway/pktcls/pred_ipv4.go",
			Old: `	return fmt.Sprintf("dst=%s", m.Net)`, New: `	return fmt.Sprintf("src=%s", m.Net)`, Expect: "P1-printer-forms"},
	)
}

type sprintfCall struct {
	Format string
	Args   []string
	In     ssa.CallInstruction
}

// sprintfCalls: every fmt.Sprintf call of fn with a constant format, and the
// symbolic forms of its variadic arguments.
func sprintfCalls(v *FnView) []sprintfCall {
	var out []sprintfCall
	for _, b := range v.Fn.Blocks {
		for _, in := range b.Instrs {
			call, ok := in.(ssa.CallInstruction)
			if !ok || calleeName(call.Common()) != "fmt.Sprintf" {
				continue
			}
			args := call.Common().Args
			sc := sprintfCall{Format: "?", In: call}
			if k, isK := args[0].(*ssa.Const); isK && k.Value != nil && k.Value.Kind() == constant.String {
				sc.Format = constant.StringVal(k.Value)
			}
			for _, e := range variadicElems(args[1]) {
				if e == nil {
					sc.Args = append(sc.Args, "?")
				} else {
					sc.Args = append(sc.Args, v.S.Sym(e))
				}
			}
			out = append(out, sc)
		}
	}
	return out
}

// variadicElems: the values stored into the backing array of a variadic slice
// (interface conversions stripped), by index.
func variadicElems(a ssa.Value) []ssa.Value {
	sl, ok := a.(*ssa.Slice)
	if !ok || sl.X.Referrers() == nil {
		return nil
	}
	elems := map[int64]ssa.Value{}
	var max int64 = -1
	for _, r := range *sl.X.Referrers() {
		ia, isIA := r.(*ssa.IndexAddr)
		if !isIA || ia.Referrers() == nil {
			continue
		}
		k, isK := foldInt(ia.Index)
		if !isK {
			continue
		}
		for _, rr := range *ia.Referrers() {
			if st, isSt := rr.(*ssa.Store); isSt && st.Addr == ia {
				val := st.Val
				if mi, isMI := val.(*ssa.MakeInterface); isMI {
					val = mi.X
				}
				elems[k] = val
				if k > max {
					max = k
				}
			}
		}
	}
	out := make([]ssa.Value, max+1)
	for k, e := range elems {
		out[k] = e
	}
	return out
}

func c43PrinterForms(c *Ctx) {
	rule := "P1-printer-forms"
	pk := "gateway/pktcls."
	type form struct {
		fn, format string
		args       []string // substrings the i-th argument must contain
	}
	n := 0
	for _, f := range []form{
		{"(*" + pk + "PortMatchSource).String", "srcport=%d-%d", []string{"recv.MinPort", "recv.MaxPort"}},
		{"(*" + pk + "PortMatchDestination).String", "dstport=%d-%d", []string{"recv.MinPort", "recv.MaxPort"}},
		{"(*" + pk + "IPv4MatchSource).String", "src=%s", []string{"recv.Net"}},
		{"(*" + pk + "IPv4MatchDestination).String", "dst=%s", []string{"recv.Net"}},
		{"(*" + pk + "IPv4MatchToS).String", "tos=%s", []string{"toHex(recv)"}},
		{"(*" + pk + "IPv4MatchDSCP).String", "dscp=%s", []string{"toHex(recv)"}},
		{"(*" + pk + "IPv4MatchProtocol).String", "protocol=%s", []string{"recv.Protocol"}},
		{"(" + pk + "CondNot).String", "not(%v)", []string{"recv.Operand"}},
		{"(" + pk + "CondAnyOf).String", "any(%s)", []string{"strings.Join("}},
		{"(" + pk + "CondAllOf).String", "all(%s)", []string{"strings.Join("}},
		{"(" + pk + "CondBool).String", "BOOL=%t", []string{"recv"}},
		{"(" + pk + "CondClass).String", "cls=%s", []string{"recv.TrafficClass"}},
	} {
		v := c.View(f.fn)
		if v == nil {
			continue
		}
		n++
		calls := sprintfCalls(v)
		var bad []string
		if len(calls) != 1 {
			bad = append(bad, fmt.Sprintf("%d Sprintf calls (one form per predicate)", len(calls)))
		}
		for _, sc := range calls {
			if sc.Format != f.format {
				bad = append(bad, fmt.Sprintf("format %q", sc.Format))
			}
			if len(sc.Args) != len(f.args) {
				bad = append(bad, fmt.Sprintf("%d arguments", len(sc.Args)))
				continue
			}
			for i, want := range f.args {
				if !strings.Contains(sc.Args[i], want) {
					bad = append(bad, fmt.Sprintf("argument %d is %s", i+1, sc.Args[i]))
				}
			}
			// the one form is what is returned, whatever the member values are: the only
			// branches allowed before it test the receiver or its Net for nil
			for _, l := range dominatingLits(sc.In.(ssa.Instruction).Block()) {
				if s := l.String(v.S); !wild("*eq(recv, nil*", s) && !wild("*eq(recv.Net, nil*", s) && !strings.Contains(s, "builtin:len(") {
					bad = append(bad, "printed only under "+s)
				}
			}
		}
		c.Check(len(bad) == 0, rule, v.Name()+":"+f.format, v.Fn.Pos(), fmt.Sprintf("prints %q with %v: %s", f.format, f.args, strings.Join(bad, "; ")))
	}
	c.Min("pktcls-printers", n, 12)
}
