package main

import (
	"fmt"
	"go/ast"
	"go/parser"
	"go/token"
	"go/types"
	"os"
	"sort"
	"strings"
	"time"

	"golang.org/x/tools/go/callgraph"
	"golang.org/x/tools/go/callgraph/cha"
	"golang.org/x/tools/go/callgraph/vta"
	"golang.org/x/tools/go/packages"
	"golang.org/x/tools/go/ssa"
	"golang.org/x/tools/go/ssa/ssautil"
)

const modPath = "github.com/scionproto/scion"

// repoDir is the repository analysed. It is /repo unless overridden for checker
// self-tests (never by a registered command).
var repoDir = "/repo"

// Program is the loaded, type-checked and SSA-converted slice of the repository
// that one property's rules look at.
type Program struct {
	Fset     *token.FileSet
	Pkgs     map[string]*packages.Package // by import path, module packages only
	SSA      *ssa.Program
	SSAPkgs  map[string]*ssa.Package
	cg       *callgraph.Graph
	allFuncs map[*ssa.Function]bool
	LoadSecs float64
	Env      []string
	NumFuncs int
}

func loaderEnv(extra []string) []string {
	env := []string{}
	for _, kv := range os.Environ() {
		if strings.HasPrefix(kv, "GOWORK=") || strings.HasPrefix(kv, "GOFLAGS=") ||
			strings.HasPrefix(kv, "GOTOOLCHAIN=") || strings.HasPrefix(kv, "GOPROXY=") ||
			strings.HasPrefix(kv, "GOSUMDB=") || strings.HasPrefix(kv, "PATH=") {
			continue
		}
		env = append(env, kv)
	}
	env = append(env, "PATH=/opt/veriftools/go1.26.8/bin:"+os.Getenv("PATH"))
	env = append(env, "GOWORK=off", "GOFLAGS=-mod=mod", "GOTOOLCHAIN=local", "GOPROXY=off",
		"GOSUMDB=off")
	env = append(env, extra...)
	return env
}

// Load loads the module-internal dependency closure of the given root patterns
// (relative to the module, e.g. "./router/...") with full syntax, and everything
// outside the module from export data. overlay maps absolute file names to
// replacement contents (used only by the checker self-test).
func Load(roots []string, extraEnv []string, overlay map[string][]byte) (*Program, error) {
	t0 := time.Now()
	env := loaderEnv(extraEnv)
	fset := token.NewFileSet()
	// Phase 1: dependency closure, names only.
	cfg1 := &packages.Config{
		Mode: packages.NeedName | packages.NeedImports | packages.NeedDeps,
		Dir:  repoDir,
		Env:  env,
		Fset: fset,
	}
	p1, err := packages.Load(cfg1, roots...)
	if err != nil {
		return nil, fmt.Errorf("phase-1 load: %w", err)
	}
	modPkgs := map[string]bool{}
	packages.Visit(p1, nil, func(p *packages.Package) {
		if p.PkgPath == modPath || strings.HasPrefix(p.PkgPath, modPath+"/") {
			modPkgs[p.PkgPath] = true
		}
	})
	if len(modPkgs) == 0 {
		return nil, fmt.Errorf("no module packages matched %v", roots)
	}
	var list []string
	for p := range modPkgs {
		list = append(list, p)
	}
	sort.Strings(list)
	// Phase 2: module packages as roots with syntax; the rest from export data.
	// Mutants (checker self-test only) are substituted at parse time, so that
	// everything outside the module still comes from export data.
	cfg2 := &packages.Config{
		Mode: packages.LoadSyntax,
		Dir:  repoDir,
		Env:  env,
		Fset: fset,
		ParseFile: func(fset *token.FileSet, filename string, src []byte) (*ast.File, error) {
			if repl, ok := overlay[filename]; ok {
				src = repl
			}
			return parser.ParseFile(fset, filename, src, parser.AllErrors|parser.ParseComments)
		},
	}
	p2, err := packages.Load(cfg2, list...)
	if err != nil {
		return nil, fmt.Errorf("phase-2 load: %w", err)
	}
	prog := &Program{Fset: fset, Pkgs: map[string]*packages.Package{}, Env: env,
		SSAPkgs: map[string]*ssa.Package{}}
	var errs []string
	for _, p := range p2 {
		prog.Pkgs[p.PkgPath] = p
		for _, e := range p.Errors {
			errs = append(errs, fmt.Sprintf("%s: %s", p.PkgPath, e.Error()))
		}
		if p.Types == nil || p.TypesInfo == nil || len(p.Syntax) == 0 {
			errs = append(errs, fmt.Sprintf("%s: no syntax/types", p.PkgPath))
		}
	}
	if len(errs) > 0 {
		sort.Strings(errs)
		if len(errs) > 10 {
			errs = errs[:10]
		}
		return nil, fmt.Errorf("load errors in analysed packages:\n  %s", strings.Join(errs, "\n  "))
	}
	if os.Getenv("SCIONVET_DEBUG") != "" {
		debugImports(p2)
	}
	mode := ssa.InstantiateGenerics
	if os.Getenv("SCIONVET_DEBUG") != "" {
		mode |= ssa.BuildSerially | ssa.LogSource
	}
	sprog, spkgs := ssautil.AllPackages(p2, mode)
	sprog.Build()
	for i, sp := range spkgs {
		if sp != nil {
			prog.SSAPkgs[p2[i].PkgPath] = sp
		}
	}
	prog.SSA = sprog
	if !skipRefNames {
		applyRefNames(prog)
	}
	prog.LoadSecs = time.Since(t0).Seconds()
	return prog, nil
}

// AllFuncs returns all functions of the SSA program (bodies only for module code).
func (p *Program) AllFuncs() map[*ssa.Function]bool {
	if p.allFuncs == nil {
		p.allFuncs = ssautil.AllFunctions(p.SSA)
		// ssautil.AllFunctions only follows what is reachable from exported API and
		// runtime types; who-may-call rules need EVERY declared function of the
		// module packages, also the methods of unexported types.
		var add func(f *ssa.Function)
		add = func(f *ssa.Function) {
			if f == nil || p.allFuncs[f] {
				return
			}
			p.allFuncs[f] = true
			for _, an := range f.AnonFuncs {
				add(an)
			}
		}
		for _, sp := range p.SSAPkgs {
			for _, m := range sp.Members {
				switch x := m.(type) {
				case *ssa.Function:
					add(x)
				case *ssa.Type:
					for _, t := range []types.Type{x.Type(), types.NewPointer(x.Type())} {
						ms := p.SSA.MethodSets.MethodSet(t)
						for i := 0; i < ms.Len(); i++ {
							if fn, ok := ms.At(i).Obj().(*types.Func); ok && fn.Pkg() == sp.Pkg {
								if tp, isNamed := x.Type().(*types.Named); isNamed && tp.TypeParams().Len() > 0 {
									continue
								}
								add(p.SSA.MethodValue(ms.At(i)))
							}
						}
					}
				}
			}
		}
		for f := range p.allFuncs {
			for _, an := range f.AnonFuncs {
				add(an)
			}
		}
		n := 0
		for f := range p.allFuncs {
			if f.Blocks != nil {
				n++
			}
		}
		p.NumFuncs = n
	}
	return p.allFuncs
}

// CallGraph returns the VTA call graph (built on first use).
func (p *Program) CallGraph() *callgraph.Graph {
	if p.cg == nil {
		all := p.AllFuncs()
		p.cg = vta.CallGraph(all, cha.CallGraph(p.SSA))
	}
	return p.cg
}

// Pos renders a position relative to the repository root.
func (p *Program) Pos(pos token.Pos) string {
	if !pos.IsValid() {
		return "-"
	}
	ps := p.Fset.Position(pos)
	f := strings.TrimPrefix(ps.Filename, repoDir+"/")
	return fmt.Sprintf("%s:%d", f, ps.Line)
}

// LookupFunc resolves a function reference in go/ssa's naming convention with
// module-relative package paths: "router.newDataPlane",
// "(*router.scionPacketProcessor).process", "(pkg/addr.IA).Equal".
func (p *Program) LookupFunc(q string) (*ssa.Function, error) {
	if n, ok := funcOldToNew[q]; ok {
		q = n // the function recorded under this name was renamed (see localnames.go)
	}
	ptr := false
	var pkgRel, tn, name string
	if strings.HasPrefix(q, "(") {
		end := strings.Index(q, ").")
		if end < 0 {
			return nil, fmt.Errorf("bad function reference %q", q)
		}
		recv := q[1:end]
		name = q[end+2:]
		if strings.HasPrefix(recv, "*") {
			ptr = true
			recv = recv[1:]
		}
		var ok bool
		pkgRel, tn, ok = splitQual(recv)
		if !ok {
			return nil, fmt.Errorf("bad function reference %q", q)
		}
	} else {
		var ok bool
		pkgRel, name, ok = splitQual(q)
		if !ok {
			return nil, fmt.Errorf("bad function reference %q", q)
		}
	}
	sp := p.SSAPkgs[modPath+"/"+pkgRel]
	if sp == nil {
		return nil, fmt.Errorf("anchor unresolved: package %s not loaded (for %s)", pkgRel, q)
	}
	if tn != "" {
		obj := sp.Pkg.Scope().Lookup(tn)
		if obj == nil {
			return nil, fmt.Errorf("anchor unresolved: type %s.%s", pkgRel, tn)
		}
		var t types.Type = obj.Type()
		if ptr {
			t = types.NewPointer(t)
		}
		ms := p.SSA.MethodSets.MethodSet(t)
		for i := 0; i < ms.Len(); i++ {
			sel := ms.At(i)
			if sel.Obj().Name() == name && sel.Obj().Pkg() == sp.Pkg {
				if decl := p.SSA.FuncValue(sel.Obj().(*types.Func)); decl != nil {
					return decl, nil
				}
			}
		}
		return nil, fmt.Errorf("anchor unresolved: method %s", q)
	}
	fn := sp.Func(name)
	if fn == nil {
		return nil, fmt.Errorf("anchor unresolved: function %s", q)
	}
	return fn, nil
}

func splitQual(q string) (pkg, name string, ok bool) {
	// The package path ends at the first '.' after the last '/'.
	slash := strings.LastIndex(q, "/")
	dot := strings.Index(q[slash+1:], ".")
	if dot < 0 {
		return "", "", false
	}
	dot += slash + 1
	return q[:dot], q[dot+1:], true
}

// FuncName renders an SSA function relative to the module.
func FuncName(fn *ssa.Function) string {
	if fn == nil {
		return "<nil>"
	}
	return canonFuncString(rawFuncName(fn))
}

// ObjName renders a types.Func relative to the module.
func ObjName(fn *types.Func) string {
	if fn == nil {
		return "<nil>"
	}
	return canonFuncString(strings.ReplaceAll(fn.FullName(), modPath+"/", ""))
}

func debugImports(p2 []*packages.Package) {
	byPath := map[string]*packages.Package{}
	for _, p := range p2 {
		byPath[p.PkgPath] = p
	}
	for _, p := range p2 {
		for path, imp := range p.Imports {
			if strings.HasPrefix(path, modPath) {
				if byPath[path] != imp {
					fmt.Printf("DEBUG: %s imports %s: not a root (id %s, syntax %d, types %v)\n", p.PkgPath, path, imp.ID, len(imp.Syntax), imp.Types != nil)
				} else if imp.Types != byPath[path].Types {
					fmt.Printf("DEBUG: types differ %s\n", path)
				}
			}
		}
		if p.Types != nil {
			for _, ip := range p.Types.Imports() {
				if strings.HasPrefix(ip.Path(), modPath) && byPath[ip.Path()] != nil && byPath[ip.Path()].Types != ip {
					fmt.Printf("DEBUG: %s has types import %s that is a different *types.Package\n", p.PkgPath, ip.Path())
				}
			}
		}
	}
}
