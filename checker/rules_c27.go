package main

import (
	"fmt"
	"go/constant"
	"os"
	"path/filepath"
	"regexp"
	"sort"
	"strings"

	"golang.org/x/tools/go/ssa"
)

func init() {
	register(&PropRule{
		ID:    "C27",
		Roots: []string{"./private/storage/path/sqlite", "./private/storage/beacon/sqlite", "./private/storage/db"},
		Explain: "Decides the version rule and the structural preconditions of the two SQLite stores. (V1) Complete " +
			"decision table of the path DB's insert over (lookup error, segment absent, insertFull error, version " +
			"extraction errors, new version <= stored version, update error): a full insert with the segment's own " +
			"type and groups exactly when the id is absent, an update - updateExisting with the new segment, its " +
			"type, full id and groups - exactly when the stored entry exists and the signing time of the new " +
			"segment's last AS entry is strictly greater than the stored one's, InsertStats{Inserted:1} / " +
			"{Updated:1} / {} accordingly and no write otherwise. (V2) The same table for the beacon DB's " +
			"InsertBeacon, with the segment timestamp (Info.Timestamp.After(stored InfoTime)) as version. (D1) " +
			"Deleting a segment or beacon row relies on ON DELETE CASCADE for its type/group/interface rows: " +
			"both schemas declare the cascades, and NewSqlite switches foreign keys on with a parameter name " +
			"that the linked driver's source actually parses (the defect fixed in 85ec815: '_pragma' is not " +
			"one), on every path to both sql.Open calls. (A1) Every SQL statement given as a constant to " +
			"Exec/Query/QueryRow has as many '?' placeholders as arguments. NOT decided: SQL semantics of the " +
			"queries and filters, ordering of candidate beacons, next-query monotonicity (needs the database).",
		Run: runC27,
	})
	setClaim("C27", claim{
		Text: "Exhaustive insert/update/ignore tables of both stores, cascade + driver-parameter agreement, " +
			"placeholder arity of constant SQL statements.",
		Note: claimNote, Technique: "static analysis: decision tables by abstract evaluation, agreement between the DSN keys " +
			"used and the keys parsed by the driver source, constant-string placeholder counting",
		Ref: "DESIGN.md §4 C27"})
	pf := "private/storage/path/sqlite/sqlite.go"
	bf := "private/storage/beacon/sqlite/db.go"
	addMutants(
		Mutant{Prop: "C27", Name: "equal-version-replaces", File: pf,
			Old: `	if newLastHopVersion <= oldLastHopVersion {`, New: `	if newLastHopVersion < oldLastHopVersion {`, Expect: "V1-pathdb-insert"},
		Mutant{Prop: "C27", Name: "older-info-timestamp-ignored", File: pf,
			Old: `	newLastHopVersion, err := utils.ExtractLastHopVersion(pseg)`,
			New: `	if pseg.Info.Timestamp.Before(meta.Seg.Info.Timestamp) {
		return pathdb.InsertStats{}, nil
	}
	newLastHopVersion, err := utils.ExtractLastHopVersion(pseg)`, Expect: "V1-pathdb-insert"},
		Mutant{Prop: "C27", Name: "update-keeps-old-type", File: pf,
			Old: `	err = updateExisting(ctx, tx, meta, []seg.Type{segMeta.Type}, newFullID, hpGroupIDs)`,
			New: `	err = updateExisting(ctx, tx, meta, nil, newFullID, hpGroupIDs)`, Expect: "V1-pathdb-insert"},
		Mutant{Prop: "C27", Name: "beacon-equal-timestamp-replaces", File: bf,
			Old: `		if b.Segment.Info.Timestamp.After(meta.InfoTime) {`, New: `		if !b.Segment.Info.Timestamp.Before(meta.InfoTime) {`, Expect: "V2-beacondb-insert"},
		Mutant{Prop: "C27", Name: "foreign-keys-wrong-parameter", File: "private/storage/db/sqlite.go",
			Old: `	connParams.Add("_foreign_keys", "1")`, New: `	connParams.Add("_pragma", "foreign_keys(1)")`, Expect: "D1-cascade"},
		Mutant{Prop: "C27", Name: "foreign-keys-only-in-memory", File: "private/storage/db/sqlite.go",
			Old: `	connParams.Add("_foreign_keys", "1")`, New: `	if c.InMemory {
		connParams.Add("_foreign_keys", "1")
	}`, Expect: "D1-cascade"},
	)
}

// renderStructLit renders a struct value built by a composite literal as
// "{Field:value,...}"; the zero value is "{}".
func renderStructLit(v ssa.Value, s *Symer) string {
	if k, ok := v.(*ssa.Const); ok && k.Value == nil {
		return "{}"
	}
	ld, ok := v.(*ssa.UnOp)
	if !ok {
		return ""
	}
	al, ok := ld.X.(*ssa.Alloc)
	if !ok || al.Referrers() == nil {
		return ""
	}
	var fs []string
	for _, r := range *al.Referrers() {
		switch x := r.(type) {
		case *ssa.FieldAddr:
			if x.Referrers() == nil {
				continue
			}
			for _, rr := range *x.Referrers() {
				if st, ok := rr.(*ssa.Store); ok && st.Addr == x {
					fs = append(fs, fieldName(x.X.Type(), x.Field)+":"+s.Sym(st.Val))
				}
			}
		case *ssa.Store:
			if x.Addr == al {
				return renderStructLit(x.Val, s)
			}
		}
	}
	sort.Strings(fs)
	return "{" + strings.Join(fs, ",") + "}"
}

func runC27(c *Ctx) {
	c27NextQuery(c)
	queryFragmentBinding(c, "Q3-fragment-binding")
	bd := boolDom()
	// V1
	pp := "private/storage/path/sqlite."
	if fn := c.Fn(pp + "insert"); fn != nil {
		syms := NewSymer()
		get := pp + "get(arg0, arg1, (*pkg/segment.PathSegment).ID(arg2.Segment))"
		xv := "private/storage/utils.ExtractLastHopVersion("
		full, upd := "call:"+pp+"insertFull", "call:"+pp+"updateExisting"
		RunTable(c, &TableSpec{
			Rule: "V1-pathdb-insert", Fn: fn, NoInline: []string{"*"},
			CallsTracked: []string{pp + "insertFull", pp + "updateExisting"},
			RetRender: func(ret *ssa.Return, i int) string {
				if i == 0 {
					return renderStructLit(RetVal(ret, 0), syms)
				}
				return ""
			},
			Atoms: []Atom{
				{Name: "getErr", Pats: []string{"(" + get + "#1 != nil)"}, Domain: bd},
				{Name: "absent", Pats: []string{"(" + get + "#0 == nil)"}, Domain: bd},
				{Name: "insErr", Pats: []string{"(" + pp + "insertFull(*) != nil)"}, Domain: bd},
				{Name: "newVerErr", Pats: []string{"(" + xv + "arg2.Segment)#1 != nil)"}, Domain: bd},
				{Name: "oldVerErr", Pats: []string{"(" + xv + get + "#0.Seg)#1 != nil)"}, Domain: bd},
				{Name: "notNewer", Pats: []string{"(" + xv + "arg2.Segment)#0 <= " + xv + get + "#0.Seg)#0)"}, Domain: bd},
				{Name: "updErr", Pats: []string{"(" + pp + "updateExisting(*) != nil)"}, Domain: bd},
			},
			Oracle: func(a map[string]string) map[string]string {
				t := func(k string) bool { return a[k] == "true" }
				fail := map[string]string{"ret0": "{} || zero:*", "ret1": "sym:*"}
				switch {
				case t("getErr"):
					fail[full], fail[upd] = "", ""
					return fail
				case t("absent"):
					w := map[string]string{full: "yes", full + ":arg2": "sym:arg2.Segment", full + ":arg4": "sym:arg3", upd: ""}
					if t("insErr") {
						w["ret0"], w["ret1"] = "{} || zero:*", "sym:*"
					} else {
						w["ret0"], w["ret1"] = "{Inserted:1}", "nil"
					}
					return w
				case t("newVerErr"), t("oldVerErr"):
					fail[full], fail[upd] = "", ""
					return fail
				case t("notNewer"):
					return map[string]string{"ret0": "{} || zero:*", "ret1": "nil", full: "", upd: ""}
				}
				w := map[string]string{upd: "yes", upd + ":arg2": "sym:" + get + "#0",
					upd + ":arg4": "sym:(*pkg/segment.PathSegment).FullID(arg2.Segment)", upd + ":arg5": "sym:arg3", full: ""}
				if t("updErr") {
					w["ret0"], w["ret1"] = "{} || zero:*", "sym:*"
				} else {
					w["ret0"], w["ret1"] = "{Updated:1}", "nil"
				}
				return w
			},
		})
		v := ViewOf(c, fn)
		// the type handed on is the segment's own
		for _, q := range []string{pp + "insertFull", pp + "updateExisting"} {
			ok := false
			for _, ci := range v.Calls(q) {
				if els, isLit := decodeSliceLit(v.S, ci.In.Common().Args[3]); isLit && len(els) == 1 && els[0][""] == "arg2.Type" {
					ok = true
				}
			}
			c.Check(ok, "V1-pathdb-insert", v.Name()+":"+q+":types", fn.Pos(), "the stored type list is []seg.Type{segMeta.Type}")
		}
		v.RequireStore("V1-pathdb-insert", 1, get+"#0.Seg", "arg2.Segment")
	}
	// V2
	bT := "(*private/storage/beacon/sqlite.executor)"
	if fn := c.Fn(bT + ".InsertBeacon"); fn != nil {
		meta := bT + ".getBeaconMeta(recv, arg0, (*pkg/segment.PathSegment).ID(local:b.Segment))"
		upd, ins := "call:"+bT+".updateExistingBeacon", "call:private/storage/db.DoInTx"
		effU, effI := "local:ret.Updated", "local:ret.Inserted"
		RunTable(c, &TableSpec{
			Rule: "V2-beacondb-insert", Fn: fn, NoInline: []string{"*"},
			CallsTracked: []string{bT + ".updateExistingBeacon", "private/storage/db.DoInTx"},
			Effects:      []string{"local:ret.Updated", "local:ret.Inserted"},
			Atoms: []Atom{
				{Name: "getErr", Pats: []string{"(" + meta + "#1 != nil)"}, Domain: bd},
				{Name: "present", Pats: []string{"(" + meta + "#0 != nil)"}, Domain: bd},
				{Name: "newer", Pats: []string{"(time.Time).After(local:b.Segment.Info.Timestamp, " + meta + "#0.InfoTime)"}, Domain: bd},
				{Name: "updErr", Pats: []string{"(" + bT + ".updateExistingBeacon(*) != nil)"}, Domain: bd},
				{Name: "insErr", Pats: []string{"(private/storage/db.DoInTx(*) != nil)"}, Domain: bd},
			},
			Oracle: func(a map[string]string) map[string]string {
				t := func(k string) bool { return a[k] == "true" }
				switch {
				case t("getErr"):
					return map[string]string{"ret1": "sym:*", upd: "", ins: "", effU: "", effI: ""}
				case t("present") && t("newer"):
					w := map[string]string{upd: "yes", upd + ":arg3": "sym:arg2", upd + ":arg4": "sym:" + meta + "#0.RowID", ins: "", effI: ""}
					if t("updErr") {
						w["ret1"], w[effU] = "sym:*", ""
					} else {
						w["ret1"], w[effU] = "nil", "1"
					}
					return w
				case t("present"):
					return map[string]string{"ret1": "nil", upd: "", ins: "", effU: "", effI: ""}
				}
				w := map[string]string{ins: "yes", upd: "", effU: ""}
				if t("insErr") {
					w["ret1"], w[effI] = "sym:*", ""
				} else {
					w["ret1"], w[effI] = "nil", "1"
				}
				return w
			},
		})
		// the value returned is that counter variable
		v := ViewOf(c, fn)
		e := NewE1(c, fn)
		okRet := true
		for _, r := range e.AllReturns() {
			if r.Block() == fn.Recover {
				continue
			}
			okRet = okRet && v.S.Sym(r.(*ssa.Return).Results[0]) == "local:ret"
		}
		c.Check(okRet, "V2-beacondb-insert", v.Name()+":returns-the-counters", fn.Pos(), "every return hands back the ret counters")
	}
	c27Cascade(c)
	c27Arity(c)
}

var dsnKey = regexp.MustCompile(`(?:params\.Get\(|params\[|pkey = )"([A-Za-z_]+)"`)

// c27Cascade: deletes rely on ON DELETE CASCADE; the DSN switches foreign keys on
// with a key the driver parses.
func c27Cascade(c *Ctx) {
	rule := "D1-cascade"
	// schemas
	for _, sc := range []struct {
		pkg string
		min int
	}{{"private/storage/path/sqlite", 3}, {"private/storage/beacon/sqlite", 0}} {
		p := c.Prog.Pkgs[modPath+"/"+sc.pkg]
		if p == nil {
			c.Fail(rule, sc.pkg+":schema", 0, "package not loaded")
			continue
		}
		n, refs := 0, 0
		for _, name := range p.Types.Scope().Names() {
			k, ok := p.Types.Scope().Lookup(name).(interface{ Val() constant.Value })
			if !ok || k.Val().Kind() != constant.String {
				continue
			}
			s := constant.StringVal(k.Val())
			refs += strings.Count(s, "REFERENCES")
			n += strings.Count(s, "ON DELETE CASCADE")
		}
		c.Check(n >= sc.min && n == refs, rule, sc.pkg+":schema", 0, fmt.Sprintf(
			"%d foreign key reference(s), %d with ON DELETE CASCADE (dependent rows disappear with their segment)", refs, n))
	}
	// the driver linked into the storage layer and the keys it parses
	dbp := c.Prog.Pkgs[modPath+"/private/storage/db"]
	if dbp == nil {
		c.Fail(rule, "private/storage/db", 0, "package not loaded")
		return
	}
	driverDir := ""
	for path, imp := range dbp.Imports {
		if strings.Contains(path, "sqlite") && len(imp.GoFiles) > 0 {
			driverDir = filepath.Dir(imp.GoFiles[0])
			c.OK(rule, "driver", 0, "SQLite driver linked by private/storage/db: "+path)
		}
	}
	if driverDir == "" {
		c.Fail(rule, "driver", 0, "no SQLite driver import found in private/storage/db (anchor unresolved)")
		return
	}
	keys := map[string]bool{}
	files, _ := filepath.Glob(filepath.Join(driverDir, "*.go"))
	for _, f := range files {
		if strings.HasSuffix(f, "_test.go") {
			continue
		}
		src, err := os.ReadFile(f)
		if err != nil {
			continue
		}
		for _, m := range dsnKey.FindAllStringSubmatch(string(src), -1) {
			keys[m[1]] = true
		}
	}
	c.Min("driver:parsed-dsn-keys", len(keys), 10)
	v := c.View("private/storage/db.NewSqlite")
	if v == nil {
		return
	}
	e := NewE1(c, v.Fn)
	var fk []ssa.Instruction
	var ignored []string
	for _, ci := range v.Calls("(net/url.Values).Add") {
		k, val := strings.Trim(ci.Args[1], `"`), strings.Trim(ci.Args[2], `"`)
		if !keys[k] {
			ignored = append(ignored, k+"="+val)
		}
		if (k == "_foreign_keys" || k == "_fk") && keys[k] && (val == "1" || val == "true" || val == "on" || val == "yes") {
			fk = append(fk, ci.In)
		}
	}
	sort.Strings(ignored)
	if len(fk) == 0 {
		c.Fail(rule, v.Name()+":foreign-keys-enabled", v.Fn.Pos(), fmt.Sprintf(
			"no DSN parameter that the driver parses switches foreign keys on; parameters the driver ignores: %v", ignored))
		return
	}
	// on every path to both Open calls
	opens := e.CallSites("database/sql.Open")
	c.Min("NewSqlite:sql.Open", len(opens), 2)
	g := Guard{Name: "foreign keys switched on", Match: func(Lit) bool { return false }}
	_ = g
	okAll := true
	for _, o := range opens {
		dom := false
		for _, f := range fk {
			if instrDominates(f, o) {
				dom = true
			}
		}
		if !dom {
			okAll = false
			c.Fail(rule, v.Name()+":foreign-keys-enabled", o.Pos(), "a connection is opened on a path that did not add the foreign-key parameter")
		}
	}
	// the parameters reach the URL of both connections
	enc := v.Calls("(net/url.Values).Encode")
	if okAll {
		c.Check(len(enc) >= 2, rule, v.Name()+":foreign-keys-enabled", v.Fn.Pos(), fmt.Sprintf(
			"foreign keys are switched on with a key the driver parses, before both sql.Open calls (%d Encode calls); "+
				"parameters the driver silently ignores (not needed by this property): %v", len(enc), ignored))
	}
}

// c27Arity: '?' placeholders vs arguments for constant statements.
func c27Arity(c *Ctx) {
	rule := "A1-sql-arity"
	n, bad := 0, 0
	for fn := range c.Prog.AllFuncs() {
		if fn.Pkg == nil || len(fn.Blocks) == 0 {
			continue
		}
		p := fn.Pkg.Pkg.Path()
		if p != modPath+"/private/storage/path/sqlite" && p != modPath+"/private/storage/beacon/sqlite" {
			continue
		}
		s := NewSymer()
		for _, b := range fn.Blocks {
			for _, in := range b.Instrs {
				ci, ok := in.(ssa.CallInstruction)
				if !ok {
					continue
				}
				name := calleeName(ci.Common())
				if !strings.Contains(name, "database/sql.") || !(strings.HasSuffix(name, "ExecContext") || strings.HasSuffix(name, "QueryContext") ||
					strings.HasSuffix(name, "QueryRowContext")) || strings.Contains(name, "sql.Stmt") {
					continue
				}
				args := ci.Common().Args
				// (recv, ctx, query, args...)
				if len(args) < 3 {
					continue
				}
				qc, isK := args[2].(*ssa.Const)
				if !isK || qc.Value == nil || qc.Value.Kind() != constant.String {
					continue
				}
				q := constant.StringVal(qc.Value)
				want := strings.Count(q, "?")
				got := -1
				if len(args) == 3 {
					got = 0
				} else if els := appendedVarargs(args[3]); els >= 0 {
					got = els
				}
				if got < 0 {
					continue
				}
				n++
				if got != want {
					bad++
					c.Fail(rule, FuncName(fn)+":"+short(s.Sym(args[2])), in.Pos(), fmt.Sprintf("%d placeholder(s), %d argument(s)", want, got))
				}
			}
		}
	}
	c.Min("constant-sql-statements", n, 8)
	if bad == 0 {
		c.OK(rule, "storage:constant-statements", 0, fmt.Sprintf("%d constant statement(s), placeholders match arguments", n))
	}
}

// appendedVarargs: number of elements of a variadic argument built from a
// literal list (-1 if it is some other slice).
func appendedVarargs(v ssa.Value) int {
	if k, ok := v.(*ssa.Const); ok && k.IsNil() {
		return 0
	}
	sl, ok := v.(*ssa.Slice)
	if !ok {
		return -1
	}
	al, ok := sl.X.(*ssa.Alloc)
	if !ok {
		return -1
	}
	if p, ok := al.Type().Underlying().(interface{ Elem() interface{ Underlying() interface{} } }); ok {
		_ = p
	}
	n := 0
	if al.Referrers() != nil {
		for _, r := range *al.Referrers() {
			if _, ok := r.(*ssa.IndexAddr); ok {
				n++
			}
		}
	}
	return n
}
