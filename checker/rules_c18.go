package main

import (
	"fmt"
	"sort"
	"strings"

	"golang.org/x/tools/go/ssa"
)

func init() {
	register(&PropRule{
		ID:    "C18",
		Roots: []string{"./pkg/slayers", "./pkg/slayers/path/..."},
		Explain: "Decides the structural clauses of the header round trip. (K1) Bit-level agreement of 13 fixed-layout " +
			"codec pairs (SCION common header, UDP header, seven SCMP message layers, info field, hop field, " +
			"path meta header, EPIC packet id): for every bit of the wire field, the member bit the decoder " +
			"reads it into is the member bit the serializer writes it from; the bits carried by no member are " +
			"exactly the documented reserved bits, which the serializers write as zero. (K2) Sibling " +
			"agreement: the hop-by-hop and end-to-end extension decoders, their skippers and their " +
			"serializers are instruction-for-instruction the same up to the type names - in particular both " +
			"hand decodeTLVOption the slice bounded by the extension's own length; the address header is " +
			"decoded from and serialized to the same offsets (DstIA 0, SrcIA 8, destination then source host " +
			"address of AddrType.Length() bytes); TLV option header: type at 0, data length at 1, data from " +
			"2, ActualLength = OptDataLen + 2; extension base: NextHdr at 0, ExtLen at 1, ActualLen = " +
			"(ExtLen+1)*4 checked against the data. (K3) Panic obligations of every decoder in pkg/slayers and " +
			"pkg/slayers/path (the bounds engine of C08 over the closure of all DecodeFromBytes / decode* / " +
			"Parse* functions): a declared length exceeding the data is rejected before any access. NOT " +
			"decided: padding arithmetic of serializeTLVOptions, equality of re-serialized variable-length " +
			"parts, gopacket's layer chaining.",
		Run: runC18,
	})
	setClaim("C18", claim{
		Text: "Bit-provenance round trip of 13 codec pairs, reserved-bit sets, sibling decoder agreement, " +
			"address/option/extension layout pairing, decoder panic obligations.",
		Note: claimNote, Technique: "static analysis: bit-provenance extraction of serializers and decoders, sibling " +
			"skeleton comparison, store/call pairing, bounds obligations (compiler prove report + guard dominance)",
		Ref: "DESIGN.md §4 C18"})
	addMutants(
		Mutant{Prop: "C18", Name: "e2e-option-slice-unbounded", File: "pkg/slayers/extn.go",
			Old: `		opt, err := decodeTLVOption(data[offset:e.ActualLen])`,
			New: `		opt, err := decodeTLVOption(data[offset:])`, Expect: "K2-siblings"},
		Mutant{Prop: "C18", Name: "flowid-mask-short", File: "pkg/slayers/scion.go",
			Old: `	s.FlowID = firstLine & 0xFFFFF`, New: `	s.FlowID = firstLine & 0xFFFF`, Expect: "K1-codec-bits"},
		Mutant{Prop: "C18", Name: "addr-types-swapped-on-decode", File: "pkg/slayers/scion.go",
			Old: `	s.DstAddrType = AddrType(data[9] >> 4 & 0xF)
	s.SrcAddrType = AddrType(data[9] & 0xF)`, New: `	s.SrcAddrType = AddrType(data[9] >> 4 & 0xF)
	s.DstAddrType = AddrType(data[9] & 0xF)`, Expect: "K1-codec-bits"},
		Mutant{Prop: "C18", Name: "traceroute-interface-offset", File: "pkg/slayers/scmp_msg.go",
			Old: `	i.Interface = binary.BigEndian.Uint64(data[offset : offset+scmpRawInterfaceLen])
	offset += scmpRawInterfaceLen
	i.BaseLayer = BaseLayer{
		Contents: data[:offset],
		Payload:  data[offset:],
	}
	return nil
}

// SerializeTo writes the serialized form of this layer into the
// SerializationBuffer, implementing gopacket.SerializableLayer.
func (i *SCMPTraceroute) SerializeTo(`, New: `	i.Interface = binary.BigEndian.Uint64(data[offset-2 : offset-2+scmpRawInterfaceLen])
	offset += scmpRawInterfaceLen
	i.BaseLayer = BaseLayer{
		Contents: data[:offset],
		Payload:  data[offset:],
	}
	return nil
}

// SerializeTo writes the serialized form of this layer into the
// SerializationBuffer, implementing gopacket.SerializableLayer.
func (i *SCMPTraceroute) SerializeTo(`, Expect: "K1-codec-bits"},
		Mutant{Prop: "C18", Name: "reserved-not-zeroed", File: "pkg/slayers/scion.go",
			Old: `	binary.BigEndian.PutUint16(buf[10:12], 0)`, New: `	binary.BigEndian.PutUint16(buf[10:12], s.PayloadLen)`, Expect: "K1-codec-bits"},
		Mutant{Prop: "C18", Name: "src-host-before-dst", File: "pkg/slayers/scion.go",
			Old: `	s.RawDstAddr = data[offset : offset+dstAddrBytes]
	offset += dstAddrBytes
	s.RawSrcAddr = data[offset : offset+srcAddrBytes]`, New: `	s.RawSrcAddr = data[offset : offset+srcAddrBytes]
	offset += srcAddrBytes
	s.RawDstAddr = data[offset : offset+dstAddrBytes]`, Expect: "K2-siblings"},
		Mutant{Prop: "C18", Name: "extn-length-unchecked", File: "pkg/slayers/extn.go",
			Old: `	if len(data) < e.ActualLen {
		return extnBase{}, serrors.New(fmt.Sprintf("invalid extension header. "+
			"Length %d less than specified length %d", len(data), e.ActualLen))
	}`, New: ``, Expect: "K3-decoder-bounds"},
		Mutant{Prop: "C18", Name: "tlv-actual-length-off-by-one", File: "pkg/slayers/extn.go",
			Old: `	o.ActualLength = int(o.OptDataLen) + 2`, New: `	o.ActualLength = int(o.OptDataLen) + 1`, Expect: "K2-siblings"},
	)
}

type c18Codec struct {
	Name, Ser, Dec string
	N              int
	Reserved       string // expected bitRanges() of the bits no member carries
}

var c18Codecs = []c18Codec{
	{"scion-common-header", "(*pkg/slayers.SCION).SerializeTo", "(*pkg/slayers.SCION).DecodeFromBytes", 12, "byte 10 bits 0-7, byte 11 bits 0-7"},
	{"udp-header", "(*pkg/slayers.UDP).SerializeTo", "(*pkg/slayers.UDP).DecodeFromBytes", 8, ""},
	{"scmp-external-interface-down", "(*pkg/slayers.SCMPExternalInterfaceDown).SerializeTo", "(*pkg/slayers.SCMPExternalInterfaceDown).DecodeFromBytes", 16, ""},
	{"scmp-internal-connectivity-down", "(*pkg/slayers.SCMPInternalConnectivityDown).SerializeTo", "(*pkg/slayers.SCMPInternalConnectivityDown).DecodeFromBytes", 24, ""},
	{"scmp-echo", "(*pkg/slayers.SCMPEcho).SerializeTo", "(*pkg/slayers.SCMPEcho).DecodeFromBytes", 4, ""},
	{"scmp-parameter-problem", "(*pkg/slayers.SCMPParameterProblem).SerializeTo", "(*pkg/slayers.SCMPParameterProblem).DecodeFromBytes", 4, "byte 0 bits 0-7, byte 1 bits 0-7"},
	{"scmp-traceroute", "(*pkg/slayers.SCMPTraceroute).SerializeTo", "(*pkg/slayers.SCMPTraceroute).DecodeFromBytes", 20, ""},
	{"scmp-destination-unreachable", "(*pkg/slayers.SCMPDestinationUnreachable).SerializeTo", "(*pkg/slayers.SCMPDestinationUnreachable).DecodeFromBytes", 4, "byte 0 bits 0-7, byte 1 bits 0-7, byte 2 bits 0-7, byte 3 bits 0-7"},
	{"scmp-packet-too-big", "(*pkg/slayers.SCMPPacketTooBig).SerializeTo", "(*pkg/slayers.SCMPPacketTooBig).DecodeFromBytes", 4, "byte 0 bits 0-7, byte 1 bits 0-7"},
	{"info-field", "(*pkg/slayers/path.InfoField).SerializeTo", "(*pkg/slayers/path.InfoField).DecodeFromBytes", 8, "byte 0 bits 2-7, byte 1 bits 0-7"},
	{"hop-field", "(*pkg/slayers/path.HopField).SerializeTo", "(*pkg/slayers/path.HopField).DecodeFromBytes", 12, "byte 0 bits 2-7"},
	{"path-meta-header", "(*pkg/slayers/path/scion.MetaHdr).SerializeTo", "(*pkg/slayers/path/scion.MetaHdr).DecodeFromBytes", 4, "byte 1 bits 2-7"},
	{"epic-packet-id", "(*pkg/slayers/path/epic.PktID).SerializeTo", "(*pkg/slayers/path/epic.PktID).DecodeFromBytes", 8, ""},
}

// serializerBuffer: the byte slice a serializer writes - its []byte parameter or
// the result of the first PrependBytes call.
func serializerBuffer(fn *ssa.Function) ssa.Value {
	for _, p := range fn.Params[1:] {
		if isByteSeq(p.Type()) {
			return p
		}
	}
	for _, b := range fn.Blocks {
		for _, in := range b.Instrs {
			if ex, ok := in.(*ssa.Extract); ok {
				if _, ok := reservedLen(ex); ok {
					return ex
				}
			}
		}
	}
	return nil
}

// skeleton renders the observable structure of fn: calls with their arguments,
// stores, branch conditions and returned values, with the given renamings.
func skeleton(fn *ssa.Function, rename map[string]string) []string {
	s := NewSymer()
	norm := func(x string) string {
		for a, b := range rename {
			x = strings.ReplaceAll(x, a, b)
		}
		return x
	}
	var out []string
	for _, b := range fn.Blocks {
		for _, in := range b.Instrs {
			switch x := in.(type) {
			case *ssa.Store:
				out = append(out, norm("store "+s.Sym(x.Addr)+" <- "+s.Sym(x.Val)))
			case ssa.CallInstruction:
				n := calleeName(x.Common())
				if strings.HasPrefix(n, "pkg/private/serrors.") || strings.HasPrefix(n, "fmt.") {
					continue
				}
				var args []string
				for _, a := range x.Common().Args {
					args = append(args, s.Sym(a))
				}
				out = append(out, norm("call "+n+"("+strings.Join(args, ", ")+")"))
			case *ssa.If:
				for i := range b.Succs {
					lits, _ := edgeLits(b, i, nil)
					for _, l := range lits {
						out = append(out, norm(fmt.Sprintf("edge%d %s", i, l.String(s))))
					}
				}
			case *ssa.Return:
				var rs []string
				for _, r := range x.Results {
					rs = append(rs, s.Sym(r))
				}
				if len(rs) > 0 && !strings.Contains(strings.Join(rs, ","), "serrors.") {
					out = append(out, norm("return "+strings.Join(rs, ", ")))
				}
			}
		}
	}
	return out
}

// c18OptionsInsideExtension: wherever an extension header's options are decoded,
// decodeTLVOption sees only the bytes of that extension: its argument is
// data[offset:ActualLen]. With an open upper bound an option may run past the
// extension into the next layer ("rejects inputs whose declared lengths exceed
// the data").
func c18OptionsInsideExtension(c *Ctx) {
	rule := "O1-options-inside-extension"
	n := 0
	for fn := range c.Prog.AllFuncs() {
		if fn.Blocks == nil || fn.Pkg == nil || fn.Pkg.Pkg.Path() != modPath+"/pkg/slayers" {
			continue
		}
		s := NewSymer()
		for _, b := range fn.Blocks {
			for _, in := range b.Instrs {
				call, ok := in.(*ssa.Call)
				if !ok || calleeName(call.Common()) != "pkg/slayers.decodeTLVOption" {
					continue
				}
				n++
				sl, isSlice := call.Common().Args[0].(*ssa.Slice)
				okBound := isSlice && sl.High != nil && strings.HasSuffix(s.Sym(sl.High), ".ActualLen") && sl.Low != nil
				got := s.Sym(call.Common().Args[0])
				c.Check(okBound, rule, FuncName(fn)+":option-bytes", call.Pos(),
					"decodeTLVOption is handed "+got+"; required: the extension's bytes from the option's offset up to ActualLen")
			}
		}
	}
	c.Min("decodeTLVOption-call-sites", n, 2)
}

func runC18(c *Ctx) {
	c18RawPathHoldsInput(c)
	c18OptionsInsideExtension(c)
	rule := "K1-codec-bits"
	for _, cd := range c18Codecs {
		ser, dec := c.Fn(cd.Ser), c.Fn(cd.Dec)
		if ser == nil || dec == nil {
			continue
		}
		buf := serializerBuffer(ser)
		if buf == nil {
			c.Fail(rule, cd.Name+":buffer", ser.Pos(), "no output buffer found in "+cd.Ser)
			continue
		}
		enc, n1 := EncoderBits(ser, buf, NewSymer())
		dcd, n2 := DecoderBits(dec, dec.Params[1], NewSymer())
		mism, reserved := CompareCodec(enc, dcd, cd.N)
		notes := append(n1, n2...)
		c.Check(len(mism) == 0 && len(notes) == 0, rule, cd.Name+":member-bits", ser.Pos(), fmt.Sprintf(
			"%d of %d bits carried by members, each decoded into the member bit it is serialized from; %s",
			len(enc), cd.N*8, strings.Join(append(truncList(mism, 4), notes...), "; ")))
		got := bitRanges(reserved)
		c.Check(got == cd.Reserved, rule, cd.Name+":reserved-bits", ser.Pos(), fmt.Sprintf(
			"bits carried by no member: [%s]; documented reserved bits: [%s]", got, cd.Reserved))
	}
	c.Min("codec-pairs", len(c18Codecs), 13)

	// K2: siblings
	rule = "K2-siblings"
	ren := map[string]string{"HopByHop": "X", "EndToEnd": "X"}
	for _, pair := range [][2]string{
		{"(*pkg/slayers.HopByHopExtn).DecodeFromBytes", "(*pkg/slayers.EndToEndExtn).DecodeFromBytes"},
		{"(*pkg/slayers.HopByHopExtnSkipper).DecodeFromBytes", "(*pkg/slayers.EndToEndExtnSkipper).DecodeFromBytes"},
		{"(*pkg/slayers.HopByHopExtn).SerializeTo", "(*pkg/slayers.EndToEndExtn).SerializeTo"},
	} {
		a, b := c.Fn(pair[0]), c.Fn(pair[1])
		if a == nil || b == nil {
			continue
		}
		sa, sb := skeleton(a, ren), skeleton(b, ren)
		diff := ""
		for i := 0; i < len(sa) || i < len(sb); i++ {
			x, y := "<end>", "<end>"
			if i < len(sa) {
				x = sa[i]
			}
			if i < len(sb) {
				y = sb[i]
			}
			if x != y {
				diff = fmt.Sprintf("step %d: %s  vs  %s", i, short(x), short(y))
				break
			}
		}
		c.Check(diff == "" && len(sa) >= 3, rule, pair[0]+"~"+pair[1], a.Pos(), fmt.Sprintf(
			"%d observable steps, identical up to the type names; %s", len(sa), diff))
	}
	for _, q := range []string{"(*pkg/slayers.HopByHopExtn).DecodeFromBytes", "(*pkg/slayers.EndToEndExtn).DecodeFromBytes"} {
		if v := c.View(q); v != nil {
			v.RequireCallArgs(rule, 1, "pkg/slayers.decodeTLVOption", "arg0[*:recv.extnBase.ActualLen]")
			e := NewE1(c, v.Fn)
			e.Require(rule, "options-inside-extension", nil, e.CallSites("pkg/slayers.decodeTLVOption"),
				e.AtomGuard("offset<ActualLen", "+lt(*, recv.extnBase.ActualLen)"),
				e.CallGuard(PassErrNil, "pkg/slayers.decodeExtnBase"))
		}
	}
	// address header offsets
	if d, s := c.View("(*pkg/slayers.SCION).DecodeAddrHdr"), c.View("(*pkg/slayers.SCION).SerializeAddrHdr"); d != nil && s != nil {
		be := "(encoding/binary.bigEndian)."
		// where each member lives, as seen by the decoder and by the serializer
		rng := func(x ssa.Value, s *Symer) string {
			sl, ok := x.(*ssa.Slice)
			if !ok {
				return "?" + s.Sym(x)
			}
			part := func(v ssa.Value) string {
				if v == nil {
					return ""
				}
				k, terms := linearForm(v, s)
				sort.Strings(terms)
				if len(terms) == 0 {
					return fmt.Sprint(k)
				}
				return fmt.Sprintf("%d+%s", k, strings.Join(terms, "+"))
			}
			return s.Sym(sl.X) + "[" + part(sl.Low) + ":" + part(sl.High) + "]"
		}
		decAt, serAt := map[string]string{}, map[string]string{}
		for _, st := range d.Stores("recv.*") {
			m := strings.TrimPrefix(st.Addr, "recv.")
			switch m {
			case "RawDstAddr", "RawSrcAddr":
				decAt[m] = rng(st.In.Val, d.S)
			case "DstIA", "SrcIA":
				if call, _ := callOf(stripConv(st.In.Val)); call != nil && calleeName(call.Common()) == be+"Uint64" {
					decAt[m] = rng(call.Common().Args[1], d.S)
				}
			}
		}
		for _, ci := range s.Calls(be + "PutUint64") {
			m := strings.TrimSuffix(strings.TrimPrefix(strings.TrimPrefix(ci.Args[2], "uint64("), "recv."), ")")
			serAt[m] = rng(ci.In.Common().Args[1], s.S)
		}
		for _, ci := range s.Calls("builtin:copy") {
			serAt[strings.TrimPrefix(ci.Args[1], "recv.")] = rng(ci.In.Common().Args[0], s.S)
		}
		dl := "(pkg/slayers.AddrType).Length(recv.DstAddrType)"
		sl := "(pkg/slayers.AddrType).Length(recv.SrcAddrType)"
		want := map[string][]string{"DstIA": {"arg0[0:]"}, "SrcIA": {"arg0[8:]"},
			"RawDstAddr": {"arg0[16:16+" + dl + "]"},
			"RawSrcAddr": {"arg0[16+" + dl + ":16+" + dl + "+" + sl + "]"}}
		for _, m := range []string{"DstIA", "SrcIA", "RawDstAddr", "RawSrcAddr"} {
			ok := decAt[m] != "" && decAt[m] == serAt[m]
			if w, has := want[m]; has && ok {
				ok = false
				for _, x := range w {
					if decAt[m] == x {
						ok = true
					}
				}
			}
			c.Check(ok, rule, "address-header:"+m, d.Fn.Pos(), fmt.Sprintf("decoded from %s, serialized to %s", decAt[m], serAt[m]))
		}
	}
	// TLV option header
	if v := c.View("pkg/slayers.decodeTLVOption"); v != nil {
		v.RequireStore(rule, 1, "*.OptDataLen", "arg0[1]")
		v.RequireStore(rule, 1, "*.ActualLength", "(int(*.OptDataLen) + 2)", "1")
		v.RequireStore(rule, 1, "*.OptData", "arg0[2:*.ActualLength]")
		e := NewE1(c, v.Fn)
		var sinks []ssa.Instruction
		for _, st := range v.Stores("*.OptData") {
			sinks = append(sinks, st.In)
		}
		e.Require(rule, "option-data-inside", nil, sinks, e.AtomGuard("len>=ActualLength", "-lt(builtin:len(arg0), *.ActualLength)"))
	}
	if v := c.View("(*pkg/slayers.tlvOption).serializeTo"); v != nil {
		v.RequireStore(rule, 1, "arg0[1]", "recv.OptDataLen")
		v.RequireCallArgs(rule, 1, "builtin:copy", "arg0[2:]", "recv.OptData")
	}
	if v := c.View("(*pkg/slayers.tlvOption).length"); v != nil {
		e := NewE1(c, v.Fn)
		ok := false
		for _, r := range e.AllReturns() {
			s := v.S.Sym(RetVal(r.(*ssa.Return), 0))
			if strings.Contains(s, "+ 2)") {
				ok = true
			}
		}
		c.Check(ok, rule, v.Name()+":length", v.Fn.Pos(), "option length = data length + 2 (1 for Pad1)")
	}
	if v := c.View("pkg/slayers.decodeExtnBase"); v != nil {
		v.RequireStore(rule, 1, "local:e.NextHdr", "pkg/slayers.L4ProtocolType(arg0[0])", "arg0[0]")
		v.RequireStore(rule, 1, "local:e.ExtLen", "arg0[1]")
		v.RequireStore(rule, 1, "local:e.ActualLen", "((int(local:e.ExtLen) + 1) * 4)")
		e := NewE1(c, v.Fn)
		e.Require(rule, "declared-length-inside-data", nil, e.SuccessReturns(), e.AtomGuard("len>=ActualLen", "-lt(builtin:len(arg0), local:e.ActualLen)"))
	}
	if v := c.View("(*pkg/slayers.extnBase).serializeToWithTLVOptions"); v != nil {
		buf := "invoke:github.com/gopacket/gopacket.SerializeBuffer.PrependBytes(arg0; 2)#0"
		v.RequireStore(rule, 1, buf+"[0]", "uint8(recv.NextHdr)", "recv.NextHdr")
		v.RequireStore(rule, 1, buf+"[1]", "recv.ExtLen")
		v.RequireStore(rule, 1, "recv.ExtLen", "uint8((((builtin:len(*) + 2) / 4) - 1))")
	}

	// K3: decoder panic obligations
	rule = "K3-decoder-bounds"
	bw := NewByteWriters(c)
	var roots []*ssa.Function
	for fn := range c.Prog.AllFuncs() {
		if fn.Pkg == nil || len(fn.Blocks) == 0 {
			continue
		}
		p := fn.Pkg.Pkg.Path()
		if p != modPath+"/pkg/slayers" && !strings.HasPrefix(p, modPath+"/pkg/slayers/path") {
			continue
		}
		n := fn.Name()
		if n == "DecodeFromBytes" || strings.HasPrefix(n, "decode") || strings.HasPrefix(n, "Decode") || strings.HasPrefix(n, "Parse") {
			roots = append(roots, fn)
		}
	}
	sort.Slice(roots, func(i, j int) bool { return FuncName(roots[i]) < FuncName(roots[j]) })
	c.Min("decoder-entry-points", len(roots), 30)
	infra := func(f *ssa.Function) bool {
		if f.Pkg == nil {
			return false
		}
		p := f.Pkg.Pkg.Path()
		return p == modPath+"/pkg/private/serrors" || p == modPath+"/pkg/log"
	}
	seen := map[*ssa.Function]bool{}
	var fns []*ssa.Function
	for _, r := range roots {
		for _, f := range bw.Closure(r, infra) {
			if !seen[f] {
				seen[f] = true
				fns = append(fns, f)
			}
		}
	}
	pkgSet := map[string]bool{}
	for _, f := range fns {
		if f.Pkg != nil {
			pkgSet["./"+strings.TrimPrefix(f.Pkg.Pkg.Path(), modPath+"/")+"/"] = true
		}
	}
	var pkgs []string
	for p := range pkgSet {
		pkgs = append(pkgs, p)
	}
	sort.Strings(pkgs)
	open, counts, err := BoundsReport(c, bw, fns, pkgs)
	if err != nil {
		c.Fail(rule, "compiler-report", 0, err.Error())
		return
	}
	perFn := map[string][]BoundSite{}
	for _, s := range open {
		perFn[FuncName(s.Fn)] = append(perFn[FuncName(s.Fn)], s)
	}
	var names []string
	for n := range perFn {
		names = append(names, n)
	}
	sort.Strings(names)
	audited := 0
	for _, n := range names {
		sites := perFn[n]
		a, ok := c08Audited[n]
		if !ok {
			a, ok = c18Audited[n]
		}
		var exprs []string
		for _, s := range sites {
			exprs = append(exprs, s.Kind+" "+short(s.Expr))
		}
		if !ok || len(sites) > a.Max {
			c.Fail(rule, n+":open-sites", sites[0].In.Pos(), fmt.Sprintf(
				"%d site(s) that can panic on a declared length or short input are neither proved by the compiler, nor behind a "+
					"dominating length test, nor covered by a caller contract; the audit allows %d: %s", len(sites), a.Max,
				strings.Join(truncList(exprs, 5), " | ")))
			continue
		}
		audited += len(sites)
		c.OK(rule, n+":open-sites", sites[0].In.Pos(), fmt.Sprintf("%d audited site(s): %s", len(sites), a.Reason))
	}
	c.OK(rule, "decoders:obligations", 0, fmt.Sprintf("%d entry points, %d functions, %d obligations; %d audited in %d functions",
		len(roots), len(fns), counts["obligations"], audited, len(names)))
	c.Min("decoder-obligations", counts["obligations"], 200)
}

// decoders outside the router's closure (end-host side of pkg/slayers)
var c18Audited = map[string]c08Audit{
	"(*pkg/slayers.HopByHopExtn).DecodeFromBytes": {1, "decodeExtnBase established len(data) >= ActualLen; offset starts at 2 and the loop runs while offset < ActualLen"},
}
