package main

import (
	"fmt"
	"strings"

	"golang.org/x/tools/go/ssa"
)

func init() {
	register(&PropRule{
		ID:    "C04",
		Roots: []string{"./router", "./pkg/slayers/path/...", "./control/beaconing"},
		Explain: "Decides the structural half of tamper detection: every MAC-protected value of the " +
			"current hop reaches the MAC comparison with all of its bits, on every forwarding path. " +
			"(R1/R2, shared with C01) no successful return of scionPacketProcessor.process without " +
			"verifyCurrentMAC, again after a segment cross-over; (R3) verifyCurrentMAC succeeds only on " +
			"a non-zero ConstantTimeCompare of hopField.Mac[:6] with FullMAC(mac, infoField, " +
			"hopField)[:6]; (R5) FullMAC hands SegID, Timestamp, ExpTime, ConsIngress, ConsEgress to " +
			"MACInput, whose byte layout covers the full width of each; (X1) the processor's " +
			"hopField/infoField are only ever loaded from the packet's current hop and info field " +
			"(GetCurrentHopField/GetCurrentInfoField; no other writer in package router, the only " +
			"method applied to them in place is UpdateSegID with the verified hop field's MAC); (D1) " +
			"the decoders read ExpTime, ConsIngress, ConsEgress, Mac, SegID and Timestamp from the " +
			"documented byte ranges of the 12-byte hop and 8-byte info field, and Raw.GetHopField / " +
			"GetInfoField index them at 4 + 8*NumINF + 12*i and 4 + 8*i; the current ones are those at " +
			"PathMeta.CurrHF / CurrINF; (M1, shared with C23) the beacon extender MACs exactly the " +
			"interface ids, expiry, timestamp and beta that it publishes. NOT decided: collision " +
			"resistance of the MAC, the behaviour of later routers, one-hop paths (C10).",
		Run: runC04,
	})
	setClaim("C04", claim{
		Text: "MAC verification dominates every forwarding return (also after cross-over); compare " +
			"operands; MAC input bit coverage; who-writes rule for the verified fields; decode layout.",
		Note: claimNote, Technique: "static analysis: guard dominance on SSA, call-argument pairing, byte-layout " +
			"extraction, who-may-write rule over package router",
		Ref: "DESIGN.md §4 C04"})
	dp := "router/dataplane.go"
	addMutants(
		Mutant{Prop: "C04", Name: "macinput-exptime-dropped", File: "pkg/slayers/path/mac.go",
			Old: `	buffer[9] = expTime`, New: `	buffer[9] = 0`, Expect: "R5-mac-input"},
		Mutant{Prop: "C04", Name: "macinput-egress-low-byte", File: "pkg/slayers/path/mac.go",
			Old: `	binary.BigEndian.PutUint16(buffer[12:14], consEgress)`,
			New: `	buffer[12] = byte(consEgress >> 8)`, Expect: "R5-mac-input"},
		Mutant{Prop: "C04", Name: "compare-four-bytes", File: dp,
			Old: `	if subtle.ConstantTimeCompare(p.hopField.Mac[:path.MacLen], fullMac[:path.MacLen]) == 0 {`,
			New: `	if subtle.ConstantTimeCompare(p.hopField.Mac[:4], fullMac[:4]) == 0 {`, Expect: "R3-mac-compare"},
		Mutant{Prop: "C04", Name: "xover-keeps-old-info", File: dp,
			Old: `	if p.infoField, err = p.path.GetCurrentInfoField(); err != nil {`,
			New: `	if _, err = p.path.GetCurrentInfoField(); err != nil {`, Expect: "X1-verified-fields"},
		Mutant{Prop: "C04", Name: "hop-decode-egress-offset", File: "pkg/slayers/path/hopfield.go",
			Old: `	h.ConsEgress = binary.BigEndian.Uint16(raw[4:6])`,
			New: `	h.ConsEgress = binary.BigEndian.Uint16(raw[2:4])`, Expect: "D1-decode-layout"},
		Mutant{Prop: "C04", Name: "info-decode-timestamp-short", File: "pkg/slayers/path/infofield.go",
			Old: `	inf.Timestamp = binary.BigEndian.Uint32(raw[4:8])`,
			New: `	inf.Timestamp = uint32(binary.BigEndian.Uint16(raw[6:8]))`, Expect: "D1-decode-layout"},
		Mutant{Prop: "C04", Name: "current-hop-is-previous", File: "pkg/slayers/path/scion/raw.go",
			Old: `	return s.GetHopField(int(s.PathMeta.CurrHF))`,
			New: `	return s.GetHopField(int(s.PathMeta.CurrHF) &^ 0x40)`, Expect: "D1-decode-layout"},
		Mutant{Prop: "C04", Name: "extender-publishes-other-expiry", File: "control/beaconing/extender.go",
			Old: `		ExpTime:     expTime,
		Mac:         m,`, New: `		ExpTime:     expTime | 1,
		Mac:         m,`, Expect: "M1-hop-field-mac"},
	)
}

func runC04(c *Ctx) {
	procStateFresh(c, "S1-per-packet-state")
	c01Core(c, "C04")
	hopFieldMacRule(c, "(*control/beaconing.DefaultExtender)")
	c04VerifiedFields(c)
	c04Decode(c)
}

// c04VerifiedFields: who writes scionPacketProcessor.hopField / infoField.
func c04VerifiedFields(c *Ctx) {
	rule := "X1-verified-fields"
	checkFieldEffects(c, rule, procFieldEffects(c, NewByteWriters(c)))
	// after the cross-over the processor works on the new segment's fields
	if v := c.View(procT + ".doXover"); v != nil {
		e := NewE1(c, v.Fn)
		inc := e.CallSites("(*pkg/slayers/path/scion.Raw).IncPath", "(*pkg/slayers/path/scion.Base).IncPath")
		c.Min("doXover:IncPath", len(inc), 1)
		for _, f := range []string{"hopField", "infoField"} {
			sts := v.Stores("recv." + f)
			ok := len(sts) >= 1
			for _, st := range sts {
				ok = ok && strings.Contains(st.Val, "GetCurrent")
				for _, i := range inc {
					ok = ok && instrDominates(i, st.In)
				}
			}
			c.Check(ok, rule, v.Name()+":reload-"+f+"-after-IncPath", v.Fn.Pos(),
				fmt.Sprintf("%d reload(s) of %s from the packet after the path was advanced", len(sts), f))
		}
		e.Require(rule, "success-needs-reload", nil, e.SuccessReturns(),
			e.CallGuard(PassErrNil, "(*pkg/slayers/path/scion.Raw).GetCurrentHopField"),
			e.CallGuard(PassErrNil, "(*pkg/slayers/path/scion.Raw).GetCurrentInfoField"))
	}
}



// zeroLit: v loads a composite literal that has no field stores.
func zeroLit(v ssa.Value) bool {
	ld, ok := v.(*ssa.UnOp)
	if !ok {
		return false
	}
	al, ok := ld.X.(*ssa.Alloc)
	if !ok || al.Referrers() == nil {
		return false
	}
	for _, r := range *al.Referrers() {
		if _, ok := r.(*ssa.FieldAddr); ok {
			return false
		}
		if st, ok := r.(*ssa.Store); ok && st.Addr == al {
			return false
		}
	}
	return true
}

func c04Decode(c *Ctx) {
	rule := "D1-decode-layout"
	be := "(encoding/binary.bigEndian)."
	g := "global:encoding/binary.BigEndian, "
	if v := c.View("(*pkg/slayers/path.HopField).DecodeFromBytes"); v != nil {
		v.RequireStore(rule, 1, "recv.ExpTime", "arg0[1]")
		v.RequireStore(rule, 1, "recv.ConsIngress", be+"Uint16("+g+"arg0[2:4])")
		v.RequireStore(rule, 1, "recv.ConsEgress", be+"Uint16("+g+"arg0[4:6])")
		v.RequireCallArgs(rule, 1, "builtin:copy", "recv.Mac[:]", "arg0[6:12]")
		e := NewE1(c, v.Fn)
		e.Require(rule, "length-checked", nil, e.SuccessReturns(), e.AtomGuard("len>=12", "-lt(builtin:len(arg0), 12)"))
	}
	if v := c.View("(*pkg/slayers/path.InfoField).DecodeFromBytes"); v != nil {
		v.RequireStore(rule, 1, "recv.SegID", be+"Uint16("+g+"arg0[2:4])")
		v.RequireStore(rule, 1, "recv.Timestamp", be+"Uint32("+g+"arg0[4:8])")
		e := NewE1(c, v.Fn)
		e.Require(rule, "length-checked", nil, e.SuccessReturns(), e.AtomGuard("len>=8", "-lt(builtin:len(arg0), 8)"))
	}
	rp := "(*pkg/slayers/path/scion.Raw)."
	if v := c.View(rp + "GetHopField"); v != nil {
		off := "(((recv.Base.NumINF * 8) + 4) + (arg0 * 12))"
		v.RequireCallArgs(rule, 1, "(*pkg/slayers/path.HopField).DecodeFromBytes", "local:hop", "recv.Raw["+off+":("+off+" + 12)]")
		e := NewE1(c, v.Fn)
		e.Require(rule, "index-checked", nil, e.SuccessReturns(), e.AtomGuard("idx<NumHops", "+lt(arg0, recv.Base.NumHops)"),
			e.CallGuard(PassErrNil, "(*pkg/slayers/path.HopField).DecodeFromBytes"))
		retOK := true
		for _, r := range e.SuccessReturns() {
			retOK = retOK && v.S.Sym(RetVal(r.(*ssa.Return), 0)) == "local:hop"
		}
		c.Check(retOK, rule, v.Name()+":returns-decoded", v.Fn.Pos(), "returns the decoded hop field")
	}
	if v := c.View(rp + "GetInfoField"); v != nil {
		off := "((arg0 * 8) + 4)"
		v.RequireCallArgs(rule, 1, "(*pkg/slayers/path.InfoField).DecodeFromBytes", "local:info", "recv.Raw["+off+":("+off+" + 8)]")
		e := NewE1(c, v.Fn)
		e.Require(rule, "index-checked", nil, e.SuccessReturns(), e.AtomGuard("idx<NumINF", "+lt(arg0, recv.Base.NumINF)"),
			e.CallGuard(PassErrNil, "(*pkg/slayers/path.InfoField).DecodeFromBytes"))
		retOK := true
		for _, r := range e.SuccessReturns() {
			retOK = retOK && v.S.Sym(RetVal(r.(*ssa.Return), 0)) == "local:info"
		}
		c.Check(retOK, rule, v.Name()+":returns-decoded", v.Fn.Pos(), "returns the decoded info field")
	}
	if v := c.View(rp + "GetCurrentHopField"); v != nil {
		v.RequireCallArgs(rule, 1, rp+"GetHopField", "recv", "int(recv.Base.PathMeta.CurrHF)")
	}
	if v := c.View(rp + "GetCurrentInfoField"); v != nil {
		v.RequireCallArgs(rule, 1, rp+"GetInfoField", "recv", "int(recv.Base.PathMeta.CurrINF)")
	}
}
