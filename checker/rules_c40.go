package main

import (
	"fmt"

	"golang.org/x/tools/go/ssa"
)

func init() {
	register(&PropRule{
		ID:    "C40",
		Roots: []string{"./control/drkey/grpc", "./pkg/connect", "./control/drkey"},
		Explain: "Decides: each DRKey RPC reaches its Engine.Derive*/Get* call only after its validator " +
			"succeeded on the very metadata that is then derived from, with the server's local ISD-AS " +
			"and the gRPC peer address; the complete decision tables of validateASHostReq, " +
			"validateHostASReq and validateHostHostReq (generic protocol, ISD-AS equals local, peer " +
			"IP equals the named host IP) accept exactly the cells of the specification; Level1 keys " +
			"are derived for (local ISD-AS → ISD-AS of the verified client certificate), never for an " +
			"ISD-AS taken from the request, and only for predefined protocols; intra-AS Level1 and " +
			"secret-value requests require the local ISD-AS to be an endpoint resp. the (peer host, " +
			"protocol) pair to be in the allow-list. NOT decided: key derivation arithmetic (C39), " +
			"TLS certificate verification.",
		Run: runC40,
	})
	setClaim("C40", claim{
		Text: "Guard dominance of each validator over its derivation sink with argument pairing, " +
			"exhaustive decision tables of the three request validators, value-origin rule for the " +
			"Level1 destination ISD-AS.",
		Note: claimNote, Technique: "static analysis: guard dominance, decision tables by conditional " +
			"constant propagation, symbolic argument pairing", Ref: "DESIGN.md §4 C40, Appendix A.7"})
	addMutants(
		Mutant{Prop: "C40", Name: "ashost-host-unchecked", File: "control/drkey/grpc/drkey_service.go",
			Old: `	dstHost := net.ParseIP(meta.DstHost)
	if !hostAddr.Equal(dstHost) {`, New: `	dstHost := net.ParseIP(meta.DstHost)
	if !hostAddr.Equal(dstHost) && dstHost != nil {`, Expect: "T1-validator-tables"},
		Mutant{Prop: "C40", Name: "hosthost-or-instead-of-and", File: "control/drkey/grpc/drkey_service.go",
			Old: `	if (!meta.SrcIA.Equal(localIA) || !hostAddr.Equal(srcHost)) &&
		(!meta.DstIA.Equal(localIA) || !hostAddr.Equal(dstHost)) {`,
			New: `	if (!meta.SrcIA.Equal(localIA) && !hostAddr.Equal(srcHost)) &&
		(!meta.DstIA.Equal(localIA) || !hostAddr.Equal(dstHost)) {`, Expect: "T1-validator-tables"},
		Mutant{Prop: "C40", Name: "level1-dst-from-request", File: "control/drkey/grpc/drkey_service.go",
			Old:    `	lvl1Meta, err := getMeta(req.ProtocolId, req.ValTime, d.LocalIA, dstIA)`,
			New:    `	lvl1Meta, err := getMeta(req.ProtocolId, req.ValTime, dstIA, d.LocalIA)`,
			Expect: "G1-validated-before-derive"},
		Mutant{Prop: "C40", Name: "hostas-validated-against-other-meta", File: "control/drkey/grpc/drkey_service.go",
			Old: `	key, err := d.Engine.DeriveHostAS(ctx, meta)`,
			New: `	meta.SrcHost = req.SrcHost
	meta.ProtoId = drkey.Protocol(req.ProtocolId)
	key, err := d.Engine.DeriveHostAS(ctx, meta)`, Expect: "G1-validated-before-derive"},
		Mutant{Prop: "C40", Name: "intra-level1-any-as", File: "control/drkey/grpc/drkey_service.go",
			Old:    `	if d.LocalIA != addr.IA(req.SrcIa) && d.LocalIA != addr.IA(req.DstIa) {`,
			New:    `	if d.LocalIA != addr.IA(req.SrcIa) && d.LocalIA != addr.IA(req.DstIa) && req.SrcIa == 0 {`,
			Expect: "G1-validated-before-derive"},
		Mutant{Prop: "C40", Name: "allowed-host-any-proto", File: "control/drkey/grpc/drkey_service.go",
			Old: `		Host:  localAddr,
		Proto: protoId,`, New: `		Host:  localAddr,
		Proto: drkey.Generic,`, Expect: "A1-allowed-host"},
	)
}

func runC40(c *Ctx) {
	c40Converters(c)
	c40PeerIsTransport(c)
	// the secret value served is the one of the protocol that was authorised: the backend keeps nothing between calls
	requireStateless(c, "M1-no-state-between-requests", "(*control/drkey.secretValueBackend).getSecretValue")
	requireStateless(c, "M1-no-state-between-requests",
		"(*control/drkey/grpc.Server).DRKeyLevel1", "(*control/drkey/grpc.Server).DRKeyIntraLevel1",
		"(*control/drkey/grpc.Server).DRKeyASHost", "(*control/drkey/grpc.Server).DRKeyHostAS",
		"(*control/drkey/grpc.Server).DRKeyHostHost", "(*control/drkey/grpc.Server).DRKeySecretValue")
	pk := "control/drkey/grpc."
	sT := "(*control/drkey/grpc.Server)"
	peerAddr := "google.golang.org/grpc/peer.FromContext(arg0)#0.Addr"
	type rpc struct{ fn, conv, validator, sink string }
	for _, r := range []rpc{
		{"DRKeyASHost", "requestToASHostMeta", "validateASHostReq", "DeriveASHost"},
		{"DRKeyHostAS", "requestToHostASMeta", "validateHostASReq", "DeriveHostAS"},
		{"DRKeyHostHost", "requestToHostHostMeta", "validateHostHostReq", "DeriveHostHost"},
	} {
		v := c.View(sT + "." + r.fn)
		if v == nil {
			continue
		}
		e := NewE1(c, v.Fn)
		meta := pk + r.conv + "(arg1)#0"
		sinks := e.CallSites("invoke:control/drkey/grpc.Engine." + r.sink)
		c.Min(r.fn+":"+r.sink, len(sinks), 1)
		e.Require("G1-validated-before-derive", r.sink, nil, sinks,
			e.AtomGuard("peer-known", "+true(google.golang.org/grpc/peer.FromContext(arg0)#1)"),
			e.AtomGuard("request-parses", "+eq("+pk+r.conv+"(arg1)#1, nil)"),
			e.AtomGuard(r.validator, "+eq("+pk+r.validator+"("+meta+", recv.LocalIA, "+peerAddr+"), nil)"))
		v.RequireCallArgs("G1-validated-before-derive", 1, "invoke:control/drkey/grpc.Engine."+r.sink,
			"recv.Engine", "arg0", meta)
		// the metadata is not touched between validation and derivation
		n := 0
		for _, b := range v.Fn.Blocks {
			for _, in := range b.Instrs {
				if st, ok := in.(*ssa.Store); ok {
					if fa, isFA := st.Addr.(*ssa.FieldAddr); isFA && wild("*"+r.conv+"*", v.S.Sym(fa.X)) {
						n++
					}
				}
			}
		}
		c.Check(n == 0 && len(v.Stores("local:meta*")) == 0, "G1-validated-before-derive",
			v.Name()+":meta-not-modified", v.Fn.Pos(),
			fmt.Sprintf("%d store(s) into the request metadata between validation and derivation", n))
	}
	// Level1
	if v := c.View(sT + ".DRKeyLevel1"); v != nil {
		e := NewE1(c, v.Fn)
		cert := sT + ".validateClientCertificate(recv, google.golang.org/grpc/peer.FromContext(arg0)#0)"
		meta := pk + "getMeta(arg1.ProtocolId, arg1.ValTime, recv.LocalIA, " + cert + "#0)"
		sinks := e.CallSites("invoke:control/drkey/grpc.Engine.DeriveLevel1")
		c.Min("DRKeyLevel1:DeriveLevel1", len(sinks), 1)
		e.Require("G1-validated-before-derive", "DeriveLevel1", nil, sinks,
			e.AtomGuard("client-certificate-valid", "+eq("+cert+"#1, nil)"),
			e.AtomGuard("meta-valid", "+eq("+meta+"#1, nil)"),
			e.AtomGuard("protocol-predefined", "+true((pkg/drkey.Protocol).IsPredefined("+meta+"#0.ProtoId))"))
		v.RequireCallArgs("G1-validated-before-derive", 1, "invoke:control/drkey/grpc.Engine.DeriveLevel1",
			"recv.Engine", "arg0", meta+"#0")
	}
	if v := c.View(sT + ".validateClientCertificate"); v != nil {
		e := NewE1(c, v.Fn)
		ver := "invoke:control/drkey/grpc.ClientCertificateVerifier.VerifyParsedClientCertificate(recv.ClientCertificateVerifier; *.State.PeerCertificates)"
		e.Require("G1-validated-before-derive", "success-returns", nil, e.SuccessReturns(),
			e.AtomGuard("has-auth-info", "-eq(arg0.AuthInfo, nil)"),
			e.AtomGuard("chain-non-empty", "-eq(builtin:len(*.State.PeerCertificates), 0)"),
			e.AtomGuard("certificate-verifies", "+eq("+ver+"#1, nil)"))
		ok := true
		for _, r := range e.SuccessReturns() {
			if !wild(ver+"#0", v.S.Sym(RetVal(r.(*ssa.Return), 0))) {
				ok = false
			}
		}
		c.Check(ok, "G1-validated-before-derive", v.Name()+":returns-certificate-IA", v.Fn.Pos(),
			"the ISD-AS returned is the one extracted from the verified client certificate")
	}
	if v := c.View(pk + "getMeta"); v != nil {
		v.RequireStore("G1-validated-before-derive", 1, "local:complit.SrcIA", "arg2")
		v.RequireStore("G1-validated-before-derive", 1, "local:complit.DstIA", "arg3")
		v.RequireStore("G1-validated-before-derive", 1, "local:complit.ProtoId", "pkg/drkey.Protocol(arg0)", "arg0")
	}
	// intra-AS level1 and secret value
	if v := c.View(sT + ".DRKeyIntraLevel1"); v != nil {
		e := NewE1(c, v.Fn)
		meta := pk + "getMeta(arg1.ProtocolId, arg1.ValTime, arg1.SrcIa, arg1.DstIa)"
		sinks := e.CallSites("invoke:control/drkey/grpc.Engine.GetLevel1Key")
		c.Min("DRKeyIntraLevel1:GetLevel1Key", len(sinks), 1)
		e.Require("G1-validated-before-derive", "GetLevel1Key", nil, sinks,
			Or("local-IA-is-endpoint", e.AtomGuard("src", "+eq(arg1.SrcIa, recv.LocalIA)"),
				e.AtomGuard("dst", "+eq(arg1.DstIa, recv.LocalIA)")),
			e.AtomGuard("host-allowed", "+eq("+sT+".validateAllowedHost(recv, "+meta+"#0.ProtoId, "+peerAddr+"), nil)"))
		// no further condition may excuse a foreign request: the failing branch of the
		// dst test cannot reach the sink
		e.FailStopTo("G1-validated-before-derive", "foreign-AS-pair-rejected", sinks,
			e.AtomGuard("dst-is-local", "+eq(arg1.DstIa, recv.LocalIA)"))
		v.RequireCallArgs("G1-validated-before-derive", 1, "invoke:control/drkey/grpc.Engine.GetLevel1Key",
			"recv.Engine", "arg0", meta+"#0")
	}
	if v := c.View(sT + ".DRKeySecretValue"); v != nil {
		e := NewE1(c, v.Fn)
		meta := pk + "secretRequestToMeta(arg1)#0"
		sinks := e.CallSites("invoke:control/drkey/grpc.Engine.GetSecretValue")
		c.Min("DRKeySecretValue:GetSecretValue", len(sinks), 1)
		e.Require("G1-validated-before-derive", "GetSecretValue", nil, sinks,
			e.AtomGuard("host-allowed", "+eq("+sT+".validateAllowedHost(recv, "+meta+".ProtoId, "+peerAddr+"), nil)"))
		v.RequireCallArgs("G1-validated-before-derive", 1, "invoke:control/drkey/grpc.Engine.GetSecretValue",
			"recv.Engine", "arg0", meta)
	}
	if v := c.View(sT + ".validateAllowedHost"); v != nil {
		e := NewE1(c, v.Fn)
		e.Require("A1-allowed-host", "success-returns", nil, e.SuccessReturns(),
			e.AtomGuard("in-allow-list", "+ok(recv.AllowedSVHostProto[local:complit])"),
			e.AtomGuard("peer-is-tcp", "+ok(arg1.(*net.TCPAddr))"))
		v.RequireStore("A1-allowed-host", 1, "local:complit.Host", "go4.org/netipx.FromStdIP(arg1.(*net.TCPAddr)#0.IP)#0")
		v.RequireStore("A1-allowed-host", 1, "local:complit.Proto", "arg0")
	}
	// validator tables
	peerIP := pk + "hostAddrFromPeer(arg2)#0"
	ipEq := func(field string) []string {
		return []string{"(net.IP).Equal(" + peerIP + ", net.ParseIP(arg0." + field + "))",
			"(net.IP).Equal(net.ParseIP(arg0." + field + "), " + peerIP + ")"}
	}
	iaEq := func(field string) []string {
		return []string{"(pkg/addr.IA).Equal(arg0." + field + ", arg1)", "(pkg/addr.IA).Equal(arg1, arg0." + field + ")",
			"(arg0." + field + " == arg1)"}
	}
	common := []Atom{
		{Name: "generic", Pats: []string{"(arg0.ProtoId == 0:pkg/drkey.Protocol)"}, Domain: boolDom()},
		{Name: "peerErr", Pats: []string{"(" + pk + "hostAddrFromPeer(arg2)#1 != nil)"}, Domain: boolDom()},
	}
	noInl := append([]string{pk + "hostAddrFromPeer", "(pkg/addr.IA).Equal"}, noInlineDefault...)
	acc := map[string]string{"ret": "nil"}
	rej := map[string]string{"ret": "sym:*"}
	if fn := c.Fn(pk + "validateASHostReq"); fn != nil {
		RunTable(c, &TableSpec{Rule: "T1-validator-tables", Fn: fn, NoInline: noInl,
			Atoms: append(append([]Atom{}, common...),
				Atom{Name: "dstLocal", Pats: iaEq("DstIA"), Domain: boolDom()},
				Atom{Name: "peerIsDst", Pats: ipEq("DstHost"), Domain: boolDom()}),
			Oracle: func(a map[string]string) map[string]string {
				if a["generic"] == "false" && a["peerErr"] == "false" && a["dstLocal"] == "true" && a["peerIsDst"] == "true" {
					return acc
				}
				return rej
			}})
	}
	if fn := c.Fn(pk + "validateHostASReq"); fn != nil {
		RunTable(c, &TableSpec{Rule: "T1-validator-tables", Fn: fn, NoInline: noInl,
			Atoms: append(append([]Atom{}, common...),
				Atom{Name: "srcLocal", Pats: iaEq("SrcIA"), Domain: boolDom()},
				Atom{Name: "peerIsSrc", Pats: ipEq("SrcHost"), Domain: boolDom()}),
			Oracle: func(a map[string]string) map[string]string {
				if a["generic"] == "false" && a["peerErr"] == "false" && a["srcLocal"] == "true" && a["peerIsSrc"] == "true" {
					return acc
				}
				return rej
			}})
	}
	if fn := c.Fn(pk + "validateHostHostReq"); fn != nil {
		RunTable(c, &TableSpec{Rule: "T1-validator-tables", Fn: fn, NoInline: noInl,
			Atoms: append(append([]Atom{}, common...),
				Atom{Name: "srcLocal", Pats: iaEq("SrcIA"), Domain: boolDom()},
				Atom{Name: "peerIsSrc", Pats: ipEq("SrcHost"), Domain: boolDom()},
				Atom{Name: "dstLocal", Pats: iaEq("DstIA"), Domain: boolDom()},
				Atom{Name: "peerIsDst", Pats: ipEq("DstHost"), Domain: boolDom()}),
			Oracle: func(a map[string]string) map[string]string {
				if a["generic"] == "false" && a["peerErr"] == "false" &&
					((a["srcLocal"] == "true" && a["peerIsSrc"] == "true") || (a["dstLocal"] == "true" && a["peerIsDst"] == "true")) {
					return acc
				}
				return rej
			}})
	}
	if v := c.View(pk + "hostAddrFromPeer"); v != nil {
		e := NewE1(c, v.Fn)
		e.Require("T1-validator-tables", "success-returns", nil, e.SuccessReturns(),
			e.AtomGuard("peer-is-tcp", "+ok(arg0.(*net.TCPAddr))"))
		ok := true
		for _, r := range e.SuccessReturns() {
			if v.S.Sym(RetVal(r.(*ssa.Return), 0)) != "arg0.(*net.TCPAddr)#0.IP" {
				ok = false
			}
		}
		c.Check(ok, "T1-validator-tables", v.Name()+":returns-peer-ip", v.Fn.Pos(), "returns the TCP peer's IP")
	}
}
