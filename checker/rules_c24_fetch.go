package main

import (
	"golang.org/x/tools/go/ssa"
)

// C24, "signed by a key certified for exactly that entry's ISD-AS": when the
// verifier's database has no chain for (IA, subject key id, validity), the chains
// come from a remote server - the one that delivered the segment. The only thing
// between that server's answer and signed.Verify is CheckChainsMatchQuery: the
// engine checks a chain against the TRC of its ISD, not against the queried AS.
//
// Rule F1: in CheckChainsMatchQuery, from the extraction of a chain's subject
// ISD-AS the next chain (or the successful return) is reached only if that ISD-AS
// EQUALS the queried one, the subject key id equals the queried one, and the
// chain's validity covers the queried validity (or none was queried); both
// fetchers (gRPC and connect) return chains only behind that check.
func init() {
	addMutants(
		Mutant{Prop: "C24", Name: "fetched-chain-same-isd-suffices", File: "private/trust/grpc/fetcher.go",
			Old: `		if !query.IA.Equal(ia) {`, New: `		if query.IA.ISD() != ia.ISD() {`, Expect: "F1-fetched-chains-match-query"},
		Mutant{Prop: "C24", Name: "fetched-chain-any-key-when-unqueried", File: "private/trust/grpc/fetcher.go",
			Old: `		if !bytes.Equal(query.SubjectKeyID, chain[0].SubjectKeyId) {`,
			New: `		if len(query.SubjectKeyID) != 0 && !bytes.Equal(query.SubjectKeyID, chain[0].SubjectKeyId) {`,
			Expect: "F1-fetched-chains-match-query"},
		Mutant{Prop: "C24", Name: "connect-fetcher-skips-match", File: "private/trust/connect/fetcher.go",
			Old: `	if err := grpc.CheckChainsMatchQuery(query, chains); err != nil {`,
			New: `	if err := grpc.CheckChainsMatchQuery(query, chains); err != nil && len(chains) > 1 {`,
			Expect: "F1-fetched-chains-match-query"},
	)
}

func c24FetchedChains(c *Ctx) {
	rule := "F1-fetched-chains-match-query"
	chk := "private/trust/grpc.CheckChainsMatchQuery"
	if v := c.View(chk); v != nil {
		e := NewE1(c, v.Fn)
		starts := e.CallSites("pkg/scrypto/cppki.ExtractIA")
		c.Min("CheckChainsMatchQuery:ExtractIA", len(starts), 1)
		// where a chain is "done": the loop header (next chain) and every successful return
		var sinks []ssa.Instruction
		for _, b := range v.Fn.Blocks {
			for _, s := range b.Succs {
				if s.Dominates(b) && len(s.Instrs) > 0 { // back edge b -> s
					sinks = append(sinks, s.Instrs[0])
				}
			}
		}
		c.Min("CheckChainsMatchQuery:loop", len(sinks), 1)
		lit := func(name string, pats ...string) Guard {
			return Guard{Name: name, Match: func(l Lit) bool {
				s := l.String(v.S)
				for _, p := range pats {
					if wild(p, s) {
						return true
					}
				}
				return false
			}}
		}
		ia := "pkg/scrypto/cppki.ExtractIA(*)#0"
		gIA := lit("subject ISD-AS == queried ISD-AS",
			"+true((pkg/addr.IA).Equal(arg0.IA, "+ia+"))", "+true((pkg/addr.IA).Equal("+ia+", arg0.IA))",
			"+eq(arg0.IA, "+ia+")", "+eq("+ia+", arg0.IA)")
		gKey := lit("subject key id == queried key id",
			"+true(bytes.Equal(arg0.SubjectKeyID, arg1[*][0].SubjectKeyId))", "+true(bytes.Equal(arg1[*][0].SubjectKeyId, arg0.SubjectKeyID))")
		gVal := lit("validity covers the queried validity (or none queried)",
			"+true((pkg/scrypto/cppki.Validity).IsZero(arg0.Validity))", "+true((pkg/scrypto/cppki.Validity).Covers(local:*, arg0.Validity))")
		for _, st := range starts {
			e.Require(rule, "chain-accepted", st, sinks, gIA, gKey, gVal)
		}
		// the validity compared is the leaf certificate's
		v.RequireStore(rule, 1, "local:complit.NotBefore", "arg1[*][0].NotBefore")
		v.RequireStore(rule, 1, "local:complit.NotAfter", "arg1[*][0].NotAfter")
	}
	for _, f := range []string{"(private/trust/grpc.Fetcher).Chains", "(private/trust/connect.Fetcher).Chains"} {
		fv := c.View(f)
		if fv == nil {
			continue
		}
		e := NewE1(c, fv.Fn)
		e.Require(rule, "success-returns", nil, e.SuccessReturns(), e.CallGuard(PassErrNil, chk))
		fv.RequireCallArgs(rule, 1, chk, "arg1", "*")
	}
}
