package main

import (
	"fmt"
	"go/constant"
	"go/token"
	"go/types"
	"regexp"
	"sort"
	"strconv"
	"strings"

	"golang.org/x/tools/go/ssa"
)

// E3 — decision tables by conditional constant propagation.
//
// The inputs of a small decision function ("atoms") are SSA values designated
// by the symbolic form they render to; each has a finite abstract domain. For
// every vector of abstract inputs the engine propagates constants through the
// function's SSA (If, Phi, comparisons, boolean negation, integer folding on
// constants, constant returns, stores of constants); static module callees are
// inlined up to a bound. Anything else on a live path leaves the cell
// undecided. This is abstract interpretation over a finite domain: no memory
// model, no concrete packet, nothing from /repo is executed.

type Atom struct {
	Name    string   // name used by the oracle
	Pats    []string // wildcard patterns on Sym (any frame)
	Domain  []string // abstract values, rendered like constStr ("true", "0", "2:pkg.T")
	Frame   string   // optional: only in the function with this FuncName
}

type TableSpec struct {
	Rule   string
	Fn     *ssa.Function
	Atoms  []Atom
	// Effects are wildcard patterns of store addresses whose last stored value is
	// part of the outcome.
	Effects []string
	// CallsTracked are callee-name patterns whose invocation is recorded as outcome
	// key "call:<name>" = "yes" (with args in "call:<name>:argN").
	CallsTracked []string
	// Oracle returns the required outcome entries for a full assignment; keys:
	// "ret" (or "ret0".."retN"), effect address patterns, "call:<name>".
	// A value "" means the key must be absent. Returning nil skips the cell
	// (combination cannot occur).
	Oracle func(a map[string]string) map[string]string
	Depth  int
	// NoInline lists callee-name patterns that must not be inlined (treated unknown
	// unless they match an atom).
	NoInline []string
	// Probe, if set, is a value of Fn whose abstract value per cell is the outcome
	// (key "probe"); evaluation of the cell stops once it is defined.
	Probe ssa.Value
	// RetRender, if set, renders a non-constant result of a return of Fn (used to
	// decode returned composite literals); "" keeps the symbolic form.
	RetRender func(ret *ssa.Return, i int) string
	// DynMemory switches on the symbolic store: addresses whose indices are known
	// on the path are named with those indices ("recv.HopFields[3]"), a load of a
	// location not written on the path yields its symbolic initial content
	// ("sym:recv.HopFields[3]"), fields of a symbolically copied struct read
	// through ("sym:recv.InfoFields[2].ConsDir"), and the negation of a symbolic
	// bool is symbolic ("sym:!..."). Loops whose bounds are atoms are unrolled by
	// the constant propagation, whatever their form.
	DynMemory bool
	// CheckMem, if set, inspects the complete store written on the path (location ->
	// last value, in the top frame's terms) after a cell was evaluated; a non-empty
	// result is a violation of the cell.
	CheckMem func(a map[string]string, mem map[string]string) string
}

type evalOutcome struct {
	Ret     []string
	Effects map[string]string
	Calls   map[string]string
	Undec   string // non-empty: why undecided
	Panic   bool
	Probed  bool
}

type evaluator struct {
	c     *Ctx
	spec  *TableSpec
	asg   map[string]string
	steps int
	used  map[string]bool
}

const absUnknown = ""

func (ev *evaluator) atomFor(fn *ssa.Function, sym string) (string, bool) {
	for _, a := range ev.spec.Atoms {
		if a.Frame != "" && a.Frame != FuncName(fn) {
			continue
		}
		for _, p := range a.Pats {
			if wild(p, sym) {
				ev.used[a.Name] = true
				return ev.asg[a.Name], true
			}
		}
	}
	return "", false
}

func parseAbsInt(s string) (int64, string, bool) {
	typ := ""
	if i := strings.Index(s, ":"); i >= 0 {
		typ = s[i:]
		s = s[:i]
	}
	v, err := strconv.ParseInt(s, 10, 64)
	return v, typ, err == nil
}

type frame struct {
	fn   *ssa.Function
	env  map[ssa.Value]string
	syms *Symer
	// subst maps the parameter roots of an inlined callee ("recv", "arg0", ...) to
	// the caller's (already resolved) symbolic form of the argument, so that
	// memory locations and atoms mean the same in every frame (a block moved into
	// a helper reads and writes the same fields).
	subst map[string]string
}

var rootTokenRE = regexp.MustCompile(`(^|[^A-Za-z0-9_:.])(recv|arg[0-9]+)\b`)

// resolve rewrites a symbolic form of this frame into the top frame's terms.
func (f *frame) resolve(s string) string {
	if len(f.subst) == 0 {
		return s
	}
	return rootTokenRE.ReplaceAllStringFunc(s, func(m string) string {
		sub := rootTokenRE.FindStringSubmatch(m)
		if r, ok := f.subst[sub[2]]; ok {
			return sub[1] + r
		}
		return m
	})
}

// memKey is the key of a memory location in the path's store.
func (f *frame) memKey(addr string) string {
	r := f.resolve(addr)
	if strings.HasPrefix(r, "local:") || strings.HasPrefix(r, "&(") {
		return "@" + FuncName(f.fn) + "@" + r
	}
	return "@mem@" + r
}

// atom looks sym up as an atom, in this frame's terms and in the top frame's.
func (ev *evaluator) atom(f *frame, sym string) (string, bool) {
	if a, ok := ev.atomFor(f.fn, sym); ok {
		return a, true
	}
	if len(f.subst) > 0 {
		if r := f.resolve(sym); r != sym {
			return ev.atomFor(ev.spec.Fn, r)
		}
	}
	return "", false
}

func (ev *evaluator) val(f *frame, v ssa.Value) string {
	if c, ok := v.(*ssa.Const); ok {
		if c.Value != nil && c.Value.Kind() == constant.Bool {
			if constant.BoolVal(c.Value) {
				return "true"
			}
			return "false"
		}
		return constStr(c)
	}
	if r, ok := f.env[v]; ok {
		return r
	}
	// parameters / free variables / globals may be atoms
	if a, ok := ev.atom(f, f.syms.Sym(v)); ok {
		return a
	}
	return absUnknown
}

func boolStr(b bool) string {
	if b {
		return "true"
	}
	return "false"
}

// compute evaluates one value-producing instruction.
func (ev *evaluator) compute(f *frame, in ssa.Instruction, pred *ssa.BasicBlock, out *evalOutcome,
	depth int) {
	v, isVal := in.(ssa.Value)
	if isVal {
		if _, isCall := in.(*ssa.Call); !isCall {
			if a, ok := ev.atom(f, f.syms.Sym(v)); ok {
				f.env[v] = a
				return
			}
			// the same comparison written the other way round, or its complement
			// (De Morgan / inverted early return): a boolean atom decides it too
			if bo, isCmp := in.(*ssa.BinOp); isCmp {
				l, r := f.syms.Sym(bo.X), f.syms.Sym(bo.Y)
				type alt struct {
					s   string
					neg bool
				}
				var alts []alt
				form := func(a, op, b string) string { return "(" + a + " " + op + " " + b + ")" }
				switch bo.Op {
				case token.EQL:
					alts = []alt{{form(l, "!=", r), true}, {form(r, "!=", l), true}, {form(r, "==", l), false}}
				case token.NEQ:
					alts = []alt{{form(l, "==", r), true}, {form(r, "==", l), true}, {form(r, "!=", l), false}}
				case token.LSS:
					alts = []alt{{form(r, ">", l), false}, {form(l, ">=", r), true}, {form(r, "<=", l), true}}
				case token.LEQ:
					alts = []alt{{form(r, ">=", l), false}, {form(l, ">", r), true}, {form(r, "<", l), true}}
				case token.GTR:
					alts = []alt{{form(r, "<", l), false}, {form(l, "<=", r), true}, {form(r, ">=", l), true}}
				case token.GEQ:
					alts = []alt{{form(r, "<=", l), false}, {form(l, "<", r), true}, {form(r, ">", l), true}}
				}
				// unsigned values and lengths: x > 0, x != 0, x >= 1 are one predicate
				if isNonNegative(bo.X) {
					pos := []string{form(l, ">", "0"), form(l, "!=", "0"), form(l, ">=", "1"), form("0", "<", l), form("1", "<=", l)}
					isPos, isNeg := false, false
					switch {
					case r == "0" && (bo.Op == token.GTR || bo.Op == token.NEQ), r == "1" && bo.Op == token.GEQ:
						isPos = true
					case r == "0" && (bo.Op == token.EQL || bo.Op == token.LEQ), r == "1" && bo.Op == token.LSS:
						isNeg = true
					}
					if isPos || isNeg {
						for _, p := range pos {
							alts = append(alts, alt{p, isNeg})
						}
					}
				}
				for _, al := range alts {
					if a, ok := ev.atom(f, al.s); ok && (a == "true" || a == "false") {
						if al.neg {
							a = boolStr(a != "true")
						}
						f.env[v] = a
						return
					}
				}
			}
		}
	}
	switch x := in.(type) {
	case *ssa.Phi:
		for i, p := range x.Block().Preds {
			if p == pred {
				a := ev.val(f, x.Edges[i])
				if a == absUnknown {
					// keep the identity of the chosen operand so that outcomes
					// (stored or returned values) stay path-precise
					a = "sym:" + f.syms.Sym(x.Edges[i])
				}
				f.env[x] = a
				return
			}
		}
	case *ssa.UnOp:
		a := ev.val(f, x.X)
		switch x.Op {
		case token.NOT:
			if a == "true" {
				f.env[x] = "false"
			} else if a == "false" {
				f.env[x] = "true"
			} else if ev.spec.DynMemory && strings.HasPrefix(a, "sym:") {
				if strings.HasPrefix(a, "sym:!") {
					f.env[x] = "sym:" + a[5:]
				} else {
					f.env[x] = "sym:!" + a[4:]
				}
			}
		case token.MUL:
			if ev.spec.DynMemory {
				addr := ev.dynAddr(f, x.X)
				if at, ok := ev.atom(f, addr); ok {
					f.env[x] = at
					return
				}
				raddr := f.resolve(addr)
				if r, ok := out.Effects[f.memKey(addr)]; ok {
					f.env[x] = r
					return
				}
				// a field / element of a location that was written as a whole
				for i := len(raddr) - 1; i > 0; i-- {
					if raddr[i] != '.' && raddr[i] != '[' {
						continue
					}
					if r, ok := out.Effects["@mem@"+raddr[:i]]; ok && strings.HasPrefix(r, "sym:") && !strings.HasPrefix(r, "sym:!") {
						f.env[x] = r + raddr[i:]
						return
					}
				}
				if _, isAlloc := rootOfAddr(x.X).(*ssa.Alloc); !isAlloc {
					f.env[x] = "sym:" + raddr
				}
				return
			}
			// load: known only if the location was stored to on this path
			addr := f.syms.Sym(x.X)
			// element of an array/slice at an index that is a known constant on this
			// path (loop counter): the element may be an atom of its own
			if ia, isIA := x.X.(*ssa.IndexAddr); isIA {
				if k := ev.val(f, ia.Index); k != absUnknown && !strings.HasPrefix(k, "sym:") {
					if i, _, isInt := parseAbsInt(k); isInt {
						dyn := fmt.Sprintf("%s[%d]", f.syms.Sym(ia.X), i)
						if a, ok := ev.atom(f, dyn); ok {
							f.env[x] = a
							return
						}
						addr = dyn
					}
				}
			}
			if r, ok := out.Effects[f.memKey(addr)]; ok {
				f.env[x] = r
			}
		}
	case *ssa.BinOp:
		a, b := ev.val(f, x.X), ev.val(f, x.Y)
		// a value built by an error constructor is not nil
		if x.Op == token.EQL || x.Op == token.NEQ {
			if (strings.HasPrefix(a, nonNilSym) && b == "nil") || (strings.HasPrefix(b, nonNilSym) && a == "nil") {
				f.env[x] = boolStr(x.Op == token.NEQ)
				return
			}
		}
		if a == absUnknown || b == absUnknown || strings.HasPrefix(a, "sym:") || strings.HasPrefix(b, "sym:") {
			return
		}
		switch x.Op {
		case token.EQL:
			f.env[x] = boolStr(a == b)
			return
		case token.NEQ:
			f.env[x] = boolStr(a != b)
			return
		}
		ai, at, ok1 := parseAbsInt(a)
		bi, _, ok2 := parseAbsInt(b)
		if !ok1 || !ok2 {
			return
		}
		switch x.Op {
		case token.LSS:
			f.env[x] = boolStr(ai < bi)
		case token.LEQ:
			f.env[x] = boolStr(ai <= bi)
		case token.GTR:
			f.env[x] = boolStr(ai > bi)
		case token.GEQ:
			f.env[x] = boolStr(ai >= bi)
		case token.ADD:
			f.env[x] = strconv.FormatInt(wrapInt(ai+bi, x.Type()), 10) + at
		case token.SUB:
			f.env[x] = strconv.FormatInt(wrapInt(ai-bi, x.Type()), 10) + at
		case token.MUL:
			f.env[x] = strconv.FormatInt(wrapInt(ai*bi, x.Type()), 10) + at
		case token.SHL:
			if bi >= 0 && bi < 63 {
				f.env[x] = strconv.FormatInt(wrapInt(ai<<uint(bi), x.Type()), 10) + at
			}
		case token.SHR:
			if bi >= 0 && bi < 63 && ai >= 0 {
				f.env[x] = strconv.FormatInt(ai>>uint(bi), 10) + at
			}
		case token.QUO:
			if bi != 0 {
				f.env[x] = strconv.FormatInt(ai/bi, 10) + at
			}
		case token.REM:
			if bi != 0 {
				f.env[x] = strconv.FormatInt(ai%bi, 10) + at
			}
		case token.XOR:
			f.env[x] = strconv.FormatInt(ai^bi, 10) + at
		case token.AND:
			f.env[x] = strconv.FormatInt(ai&bi, 10) + at
		case token.OR:
			f.env[x] = strconv.FormatInt(ai|bi, 10) + at
		}
	case *ssa.Index:
		// element of an array VALUE that was loaded as a whole (range over an array
		// field) at an index known on this path
		if ld, isLoad := x.X.(*ssa.UnOp); isLoad && ld.Op == token.MUL {
			if k := ev.val(f, x.Index); k != absUnknown && !strings.HasPrefix(k, "sym:") {
				if i, _, isInt := parseAbsInt(k); isInt {
					dyn := fmt.Sprintf("%s[%d]", f.syms.Sym(ld.X), i)
					if a, ok := ev.atom(f, dyn); ok {
						f.env[x] = a
					}
				}
			}
		}
	case *ssa.ChangeType:
		f.env[x] = ev.val(f, x.X)
	case *ssa.Convert:
		a := ev.val(f, x.X)
		if strings.HasPrefix(a, "sym:") {
			f.env[x] = "sym:" + typeShort(x.Type()) + "(" + a[4:] + ")"
		} else if a != absUnknown {
			if i, _, ok := parseAbsInt(a); ok {
				c := ssa.NewConst(constant.MakeInt64(i), x.Type())
				f.env[x] = constStr(c)
			}
		}
	case *ssa.MakeInterface:
		f.env[x] = ev.val(f, x.X)
	case *ssa.Field:
		if ev.spec.DynMemory {
			if a := ev.val(f, x.X); strings.HasPrefix(a, "sym:") && !strings.HasPrefix(a, "sym:!") {
				f.env[x] = a + "." + fieldName(x.X.Type(), x.Field)
			}
		}
	case *ssa.Store:
		addr := f.syms.Sym(x.Addr)
		if ev.spec.DynMemory {
			addr = ev.dynAddr(f, x.Addr)
		}
		val := ev.val(f, x.Val)
		if val == absUnknown {
			val = "sym:" + f.syms.Sym(x.Val)
		}
		out.Effects[f.memKey(addr)] = val
		raddr := f.resolve(addr)
		if strings.HasPrefix(val, "sym:") {
			val = "sym:" + f.resolve(val[4:])
		}
		for _, p := range ev.spec.Effects {
			if wild(p, raddr) {
				out.Effects[raddr] = val
			}
		}
	case *ssa.Call:
		ev.call(f, x, out, depth)
	}
}

func (ev *evaluator) call(f *frame, x *ssa.Call, out *evalOutcome, depth int) {
	name := calleeName(x.Common())
	sym := f.syms.Sym(x)
	for _, p := range ev.spec.CallsTracked {
		if wild(p, name) {
			out.Calls["call:"+name] = "yes"
			out.Calls["call:"+name+"("+f.syms.args(x.Common().Args)+")"] = "yes"
			for i, a := range x.Common().Args {
				v := ev.val(f, a)
				if v == absUnknown {
					v = "sym:" + f.syms.Sym(a)
				}
				out.Calls[fmt.Sprintf("call:%s:arg%d", name, i)] = v
			}
		}
	}
	if a, ok := ev.atom(f, sym); ok {
		f.env[x] = a
		return
	}
	if isErrorConstructor(name) {
		f.env[x] = nonNilSym + f.resolve(sym)
		return
	}
	h := x.Common().StaticCallee()
	if h == nil || h.Blocks == nil || depth <= 0 || !inModule(h) {
		return
	}
	if isObserverCallee(name) {
		return // logging / metrics / tracing: no influence on the decision
	}
	for _, p := range ev.spec.NoInline {
		if wild(p, name) {
			return
		}
	}
	// only inline callees that return a status (disposition/bool/error) or nothing
	sub := &frame{fn: h, env: map[ssa.Value]string{}, syms: NewSymer(), subst: map[string]string{}}
	for i, p := range h.Params {
		if i < len(x.Common().Args) {
			if v := ev.val(f, x.Common().Args[i]); v != absUnknown {
				sub.env[p] = v
			}
			sub.subst[sub.syms.Sym(p)] = f.resolve(f.syms.Sym(x.Common().Args[i]))
		}
	}
	ev.c.Funcs[FuncName(h)] = true
	res := ev.run(sub, out, depth-1)
	if out.Undec != "" || out.Panic {
		return
	}
	if len(res) == 1 {
		if !strings.HasPrefix(res[0], "sym:") || strings.HasPrefix(res[0], nonNilSym) {
			f.env[x] = res[0]
		}
	} else if len(res) > 1 {
		// tuple: bind extracts lazily via env on Extract instructions
		for _, ref := range *x.Referrers() {
			if e, ok := ref.(*ssa.Extract); ok && e.Index < len(res) &&
				(!strings.HasPrefix(res[e.Index], "sym:") || strings.HasPrefix(res[e.Index], nonNilSym)) {
				f.env[e] = res[e.Index]
			}
		}
	}
}

// run executes one frame and returns abstract results.
func (ev *evaluator) run(f *frame, out *evalOutcome, depth int) []string {
	blk := f.fn.Blocks[0]
	var pred *ssa.BasicBlock
	for {
		ev.steps++
		if ev.steps > 20000 {
			out.Undec = "step bound exceeded (loop?) in " + FuncName(f.fn)
			return nil
		}
		for _, in := range blk.Instrs {
			switch x := in.(type) {
			case *ssa.If:
				c := ev.val(f, x.Cond)
				var next *ssa.BasicBlock
				switch c {
				case "true":
					next = blk.Succs[0]
				case "false":
					next = blk.Succs[1]
				default:
					out.Undec = fmt.Sprintf("branch on non-atom %s in %s at %s", f.syms.Sym(x.Cond),
						FuncName(f.fn), ev.c.Prog.Pos(sinkPos(x)))
					return nil
				}
				pred, blk = blk, next
			case *ssa.Jump:
				pred, blk = blk, blk.Succs[0]
			case *ssa.Return:
				var res []string
				for i, r := range x.Results {
					v := ev.val(f, r)
					if v == absUnknown && ev.spec.RetRender != nil && f.fn == ev.spec.Fn {
						v = ev.spec.RetRender(x, i)
					}
					if v == absUnknown {
						v = "sym:" + f.syms.Sym(r)
					}
					res = append(res, v)
				}
				return res
			case *ssa.Panic:
				out.Panic = true
				return nil
			default:
				if _, isExtract := in.(*ssa.Extract); isExtract {
					if _, done := f.env[in.(ssa.Value)]; done {
						continue
					}
				}
				ev.compute(f, in, pred, out, depth)
				if out.Undec != "" || out.Panic {
					return nil
				}
				if pv, isV := in.(ssa.Value); isV && ev.spec.Probe != nil && pv == ev.spec.Probe {
					// the table only asks for the value of this definition: record it
					// and end the evaluation of the cell here
					v := ev.val(f, pv)
					if v == absUnknown {
						v = "sym:" + f.syms.Sym(pv)
					}
					out.Effects["probe"] = v
					out.Probed = true
					return []string{"probed"}
				}
			}
		}
		if blk == nil {
			out.Undec = "fell off the CFG"
			return nil
		}
	}
}

// RunTable enumerates the full product of atom domains and compares each cell
// with the oracle.
func RunTable(c *Ctx, spec *TableSpec) {
	if spec.Fn == nil {
		return
	}
	if spec.Depth == 0 {
		spec.Depth = 3
	}
	fname := FuncName(spec.Fn)
	c.Funcs[fname] = true
	n := len(spec.Atoms)
	idx := make([]int, n)
	cells, bad := 0, 0
	usedAll := map[string]bool{}
	for {
		asg := map[string]string{}
		for i, a := range spec.Atoms {
			asg[a.Name] = a.Domain[idx[i]]
		}
		want := spec.Oracle(asg)
		if want != nil {
			cells++
			c.Cells++
			ev := &evaluator{c: c, spec: spec, asg: asg, used: map[string]bool{}}
			out := &evalOutcome{Effects: map[string]string{}, Calls: map[string]string{}}
			f := &frame{fn: spec.Fn, env: map[ssa.Value]string{}, syms: NewSymer()}
			res := ev.run(f, out, spec.Depth)
			for k := range ev.used {
				usedAll[k] = true
			}
			out.Ret = res
			cell := cellString(spec.Atoms, asg)
			construct := fname + ":cell:" + cell
			switch {
			case out.Undec != "":
				bad++
				if bad <= 6 {
					c.Unknown(spec.Rule, construct, spec.Fn.Pos(), out.Undec)
				}
			default:
				msg := compareOutcome(out, want)
				if msg == "" && spec.CheckMem != nil {
					mem := map[string]string{}
					for k, v := range out.Effects {
						if strings.HasPrefix(k, "@mem@") {
							mem[k[5:]] = v
						}
					}
					msg = spec.CheckMem(asg, mem)
				}
				if msg != "" {
					bad++
					if bad <= 6 {
						c.Fail(spec.Rule, construct, spec.Fn.Pos(), msg)
					}
				}
			}
		}
		// next
		k := n - 1
		for k >= 0 {
			idx[k]++
			if idx[k] < len(spec.Atoms[k].Domain) {
				break
			}
			idx[k] = 0
			k--
		}
		if k < 0 {
			break
		}
	}
	if bad == 0 {
		c.OK(spec.Rule, fname+":table", spec.Fn.Pos(),
			fmt.Sprintf("%d cells over %d atoms agree with the specification table", cells, n))
	} else if bad > 6 {
		c.Fail(spec.Rule, fname+":table", spec.Fn.Pos(),
			fmt.Sprintf("%d of %d cells disagree (first 6 listed)", bad, cells))
	}
	for _, a := range spec.Atoms {
		if !usedAll[a.Name] {
			c.Fail(spec.Rule, fname+":atom-unused:"+a.Name, spec.Fn.Pos(),
				"atom never consulted by the function (anchor unresolved): "+strings.Join(a.Pats, " | "))
		}
	}
}

func cellString(atoms []Atom, asg map[string]string) string {
	var parts []string
	for _, a := range atoms {
		parts = append(parts, a.Name+"="+asg[a.Name])
	}
	return strings.Join(parts, ",")
}

func compareOutcome(out *evalOutcome, want map[string]string) string {
	var keys []string
	for k := range want {
		keys = append(keys, k)
	}
	sort.Strings(keys)
	for _, k := range keys {
		w := want[k]
		var got string
		found := false
		switch {
		case k == "panic":
			got, found = boolStr(out.Panic), true
		case k == "ret":
			if len(out.Ret) > 0 {
				got, found = out.Ret[len(out.Ret)-1], true
			}
		case strings.HasPrefix(k, "ret") && len(k) > 3:
			i, _ := strconv.Atoi(k[3:])
			if i < len(out.Ret) {
				got, found = out.Ret[i], true
			}
		case strings.HasPrefix(k, "call:"):
			for ck, cv := range out.Calls {
				if wild(k, ck) {
					got, found = cv, true
				}
			}
		default:
			for ek, evv := range out.Effects {
				if !strings.HasPrefix(ek, "@") && wild(k, ek) {
					got, found = evv, true
				}
			}
		}
		if w == "" {
			if found {
				return fmt.Sprintf("%s = %s, required absent", k, got)
			}
			continue
		}
		if out.Panic && k != "panic" {
			return "panics, required " + k + "=" + w
		}
		if !found {
			return fmt.Sprintf("%s absent, required %s", k, w)
		}
		okAlt := false
		for _, alt := range strings.Split(w, " || ") {
			if wild(alt, got) {
				okAlt = true
			}
		}
		if !okAlt {
			return fmt.Sprintf("%s = %s, required %s", k, got, w)
		}
	}
	return ""
}

// EvalFn evaluates fn abstractly with the given parameter values (rendered
// constants, "" = unknown) and returns the outcome. Used to extract finite
// tables from small pure functions.
func EvalFn(c *Ctx, fn *ssa.Function, params []string, noInline []string) *evalOutcome {
	spec := &TableSpec{Fn: fn, NoInline: noInline, Depth: 2}
	ev := &evaluator{c: c, spec: spec, asg: map[string]string{}, used: map[string]bool{}}
	out := &evalOutcome{Effects: map[string]string{}, Calls: map[string]string{}}
	f := &frame{fn: fn, env: map[ssa.Value]string{}, syms: NewSymer()}
	for i, p := range fn.Params {
		if i < len(params) && params[i] != "" {
			f.env[p] = params[i]
		}
	}
	c.Funcs[FuncName(fn)] = true
	c.Cells++
	out.Ret = ev.run(f, out, 2)
	return out
}

// dynAddr renders an address with the indices that are known on this path.
func (ev *evaluator) dynAddr(f *frame, v ssa.Value) string {
	switch x := v.(type) {
	case *ssa.IndexAddr:
		base := stripAddr(ev.dynAddr(f, x.X))
		if k := ev.val(f, x.Index); k != absUnknown && !strings.HasPrefix(k, "sym:") {
			if i, _, ok := parseAbsInt(k); ok {
				return fmt.Sprintf("%s[%d]", base, i)
			}
		}
		return base + "[" + f.syms.Sym(x.Index) + "]"
	case *ssa.FieldAddr:
		return stripAddr(ev.dynAddr(f, x.X)) + "." + fieldName(x.X.Type(), x.Field)
	case *ssa.UnOp:
		if x.Op == token.MUL {
			// the slice / pointer stored in a field: named by the field
			switch x.X.(type) {
			case *ssa.FieldAddr, *ssa.IndexAddr:
				return ev.dynAddr(f, x.X)
			}
		}
	}
	return f.syms.Sym(v)
}

// rootOfAddr follows an address expression to its base object.
func rootOfAddr(v ssa.Value) ssa.Value {
	for {
		switch x := v.(type) {
		case *ssa.IndexAddr:
			v = x.X
		case *ssa.FieldAddr:
			v = x.X
		case *ssa.UnOp:
			if x.Op != token.MUL {
				return v
			}
			v = x.X
		default:
			return v
		}
	}
}

// nonNilSym prefixes the abstract value of an error built by a constructor that
// never returns nil; it is a "sym:" value for every oracle ("sym:*").
const nonNilSym = "sym:!nil:"

func isErrorConstructor(name string) bool {
	switch name {
	case "errors.New", "fmt.Errorf":
		return true
	}
	// (Join / JoinNoStack return nil for two nil arguments and are not listed)
	for _, p := range []string{"pkg/private/serrors.New", "pkg/private/serrors.Wrap", "pkg/private/serrors.WrapNoStack"} {
		if name == p {
			return true
		}
	}
	return false
}

// wrapInt truncates v to the width and signedness of the basic integer type t.
func wrapInt(v int64, t types.Type) int64 {
	b, ok := t.Underlying().(*types.Basic)
	if !ok {
		return v
	}
	switch b.Kind() {
	case types.Uint8:
		return int64(uint8(v))
	case types.Uint16:
		return int64(uint16(v))
	case types.Uint32:
		return int64(uint32(v))
	case types.Int8:
		return int64(int8(v))
	case types.Int16:
		return int64(int16(v))
	case types.Int32:
		return int64(int32(v))
	}
	return v
}

// isNonNegative: values of unsigned type and lengths/capacities.
func isNonNegative(v ssa.Value) bool {
	if b, ok := v.Type().Underlying().(*types.Basic); ok && b.Info()&types.IsUnsigned != 0 {
		return true
	}
	if c, ok := v.(*ssa.Call); ok {
		if bi, ok := c.Common().Value.(*ssa.Builtin); ok && (bi.Name() == "len" || bi.Name() == "cap") {
			return true
		}
	}
	return false
}

// isObserverCallee: module packages that only observe (logging, metrics, tracing).
func isObserverCallee(name string) bool {
	n := strings.TrimLeft(name, "(*")
	for _, p := range []string{"pkg/log.", "pkg/log/", "pkg/metrics", "pkg/private/prom", "private/tracing"} {
		if strings.HasPrefix(n, p) {
			return true
		}
	}
	return false
}
