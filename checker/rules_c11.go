package main

import (
	"fmt"
	"strings"

	"golang.org/x/tools/go/ssa"
)

func init() {
	register(&PropRule{
		ID:    "C11",
		Roots: []string{"./router", "./router/underlayproviders/udpip", "./router/control"},
		Explain: "Decides the configuration-to-decision chain of the end-host port range and the " +
			"decision itself: Connector.SetPortRange passes the topology range, overridden by the " +
			"configured dispatched_port_start/end, to the data plane; the data plane forwards it, with " +
			"the end-host (shim dispatcher) port as redirect target, to every underlay provider; the " +
			"provider stores it and updates an already existing internal link, and a new internal " +
			"link copies it (so the order of AddInternalInterface and SetPortRange does not matter); " +
			"the complete decision table of internalLink.Resolve (host type, SVC lookup, 4-in-6, " +
			"unspecified, port below start, port above end) yields the service's port, the SCION " +
			"destination port, or the redirect port exactly when the port is outside the range; " +
			"dstScionPort takes the port from bytes 2..3 of the UDP/TCP header and the documented " +
			"fields of SCMP messages. NOT decided: the gopacket re-parsing of quoted packets.",
		Run: runC11,
	})
	setClaim("C11", claim{
		Text: "Hop-by-hop value pairing of the port range from configuration to the comparison " +
			"operands, exhaustive decision table of Resolve by conditional constant propagation " +
			"(order classes below/inside/above), write-set rule for order independence.",
		Note: claimNote, Technique: "static analysis: symbolic value pairing, decision table by " +
			"conditional constant propagation, write-set check", Ref: "DESIGN.md §4 C11"})
	addMutants(
		Mutant{Prop: "C11", Name: "unchanged-range-shortcut", File: "router/dataplane.go",
			Old: `	d.dispatchedPortStart = start
	d.dispatchedPortEnd = end`, New: `	if start == d.dispatchedPortStart && end == d.dispatchedPortEnd {
		return
	}
	d.dispatchedPortStart = start
	d.dispatchedPortEnd = end`, Expect: "F1-range-reaches-resolve"},
		Mutant{Prop: "C11", Name: "resolve-and-instead-of-or", File: "router/underlayproviders/udpip/udpip.go",
			Old: `	if port < l.dispatchStart || port > l.dispatchEnd {`,
			New: `	if port < l.dispatchStart && port > l.dispatchEnd {`, Expect: "T1-resolve-table"},
		Mutant{Prop: "C11", Name: "range-not-forwarded", File: "router/dataplane.go",
			Old: `	for _, u := range d.underlays {
		u.SetDispatchPorts(start, end, topology.EndhostPort)
	}
}`, New: `}`, Expect: "F1-range-reaches-resolve"},
		Mutant{Prop: "C11", Name: "existing-link-not-updated", File: "router/underlayproviders/udpip/udpip.go",
			Old: `			il.dispatchStart = start
			il.dispatchEnd = end`, New: `			il.dispatchEnd = end`, Expect: "F1-range-reaches-resolve"},
		Mutant{Prop: "C11", Name: "off-by-one-end-exclusive", File: "router/underlayproviders/udpip/udpip.go",
			Old: `	if port < l.dispatchStart || port > l.dispatchEnd {`,
			New: `	if port < l.dispatchStart || port >= l.dispatchEnd {`, Expect: "T1-resolve-table"},
		Mutant{Prop: "C11", Name: "override-end-ignored", File: "router/connector.go",
			Old: `		end = uint16(*c.DispatchedPortEnd)`, New: `		end = uint16(*c.DispatchedPortStart)`,
			Expect: "F1-range-reaches-resolve"},
		Mutant{Prop: "C11", Name: "tcp-port-from-src", File: "router/dataplane.go",
			Old: `				len(lastLayer.LayerPayload()))
		}
		port = binary.BigEndian.Uint16(lastLayer.LayerPayload()[2:])
	case slayers.L4SCMP:`, New: `				len(lastLayer.LayerPayload()))
		}
		port = binary.BigEndian.Uint16(lastLayer.LayerPayload()[0:])
	case slayers.L4SCMP:`, Expect: "P1-port-source"},
	)
}

// c11ProviderStoresRange: provider.SetDispatchPorts records all three values it
// is given, unconditionally, and brings an existing internal link up to date
// with the same three values (decision table; any condition under which a
// configured value is not recorded is an unspecified branch).
func c11ProviderStoresRange(c *Ctx) {
	fn := c.Fn("(*router/underlayproviders/udpip.provider).SetDispatchPorts")
	if fn == nil {
		return
	}
	il := "typeassert:*router/underlayproviders/udpip.internalLink"
	_ = il
	RunTable(c, &TableSpec{
		Rule: "F1-range-reaches-resolve", Fn: fn, NoInline: []string{"*"},
		Effects: []string{"recv.dispatchStart", "recv.dispatchEnd", "recv.dispatchRedirect",
			"*.dispatchStart", "*.dispatchEnd", "*.dispatchRedirect"},
		Atoms: []Atom{
			{Name: "hasInternal", Pats: []string{"(recv.internalConnection != nil)"}, Domain: boolDom()},
			{Name: "isInternalLink", Pats: []string{"*.(*router/underlayproviders/udpip.internalLink)#1", "*internalLink)#1"}, Domain: boolDom()},
		},
		Oracle: func(a map[string]string) map[string]string {
			want := map[string]string{"recv.dispatchStart": "sym:arg0", "recv.dispatchEnd": "sym:arg1", "recv.dispatchRedirect": "sym:arg2"}
			if a["hasInternal"] == "false" && a["isInternalLink"] == "true" {
				return nil // the assertion is not evaluated without an internal connection
			}
			if a["hasInternal"] == "true" && a["isInternalLink"] == "true" {
				want["*#0.dispatchStart"], want["*#0.dispatchEnd"], want["*#0.dispatchRedirect"] = "sym:arg0", "sym:arg1", "sym:arg2"
			} else {
				want["*#0.dispatchStart"], want["*#0.dispatchEnd"], want["*#0.dispatchRedirect"] = "", "", ""
			}
			return want
		},
	})
}

func runC11(c *Ctx) {
	c11ProviderStoresRange(c)
	c11LastLayerTypes(c)
	rule := "F1-range-reaches-resolve"
	if v := c.View("(*router.Connector).SetPortRange"); v != nil {
		v.RequireCallArgs(rule, 1, "(*router.dataPlane).SetPortRange", "recv.DataPlane",
			"phi(arg0 | uint16(recv.DispatchedPortStart))", "phi(arg1 | uint16(recv.DispatchedPortEnd))")
		// the override applies exactly when configured
		for i, f := range []string{"DispatchedPortStart", "DispatchedPortEnd"} {
			ok := false
			for _, ci := range v.Calls("(*router.dataPlane).SetPortRange") {
				if phi, isPhi := ci.In.Common().Args[i+1].(*ssa.Phi); isPhi && len(phi.Edges) == 2 {
					for k, ed := range phi.Edges {
						if strings.HasPrefix(v.S.Sym(ed), "uint16(") {
							for _, l := range blockLits(phi.Block().Preds[k]) {
								if l.String(v.S) == "-eq(recv."+f+", nil)" {
									ok = true
								}
							}
						}
					}
				}
			}
			c.Check(ok, rule, v.Name()+":override-"+f, v.Fn.Pos(), "configured "+f+" overrides the topology value iff it is set")
		}
	}
	if v := c.View("router/control.ConfigDataplane"); v != nil {
		v.RequireCallArgs(rule, 1, "invoke:router/control.Dataplane.SetPortRange", "arg0",
			"invoke:private/topology.Topology.PortRange(arg1.Topo; )#0", "invoke:private/topology.Topology.PortRange(arg1.Topo; )#1")
	}
	if v := c.View("(*router.dataPlane).SetPortRange"); v != nil {
		v.RequireCallArgs(rule, 1, "invoke:router.UnderlayProvider.SetDispatchPorts", "", "arg0", "arg1",
			c.Const("private/topology.EndhostPort"))
		c.Check(c.Const("private/topology.EndhostPort") == "30041", rule, "EndhostPort", 0, "= 30041")
		// forwarded to every provider: the call sits in a range over d.underlays
		ok := false
		for _, ci := range v.Calls("invoke:router.UnderlayProvider.SetDispatchPorts") {
			if wild("next(range(recv.underlays))#2", ci.Args[0]) {
				ok = true
			}
		}
		c.Check(ok, rule, v.Name()+":all-providers", v.Fn.Pos(), "SetDispatchPorts is invoked on every element of d.underlays")
		// ... on EVERY call of SetPortRange: no return is reachable around the loop over
		// the providers (an "unchanged range" shortcut would leave the redirect port at
		// its zero value for the empty range, which equals the initial stored range)
		var loop *ssa.BasicBlock
		for _, b := range v.Fn.Blocks {
			for _, in := range b.Instrs {
				if nx, isNext := in.(*ssa.Next); isNext && wild("range(recv.underlays)", v.S.Sym(nx.Iter)) {
					loop = b
				}
			}
		}
		okAll := loop != nil
		for _, b := range v.Fn.Blocks {
			if _, isRet := b.Instrs[len(b.Instrs)-1].(*ssa.Return); isRet && b != v.Fn.Recover && loop != nil && !loop.Dominates(b) {
				okAll = false
				c.Fail(rule, v.Name()+":providers-always-told", b.Instrs[len(b.Instrs)-1].Pos(),
					"SetPortRange can return without having told the underlay providers the range and the redirect port")
			}
		}
		if okAll {
			c.OK(rule, v.Name()+":providers-always-told", v.Fn.Pos(), "every return of SetPortRange lies behind the loop over the providers")
		}
	}
	prov := "(*router/underlayproviders/udpip.provider)"
	if v := c.View(prov + ".SetDispatchPorts"); v != nil {
		il := "recv.internalConnection.link.(*router/underlayproviders/udpip.internalLink)#0"
		for i, f := range []string{"dispatchStart", "dispatchEnd", "dispatchRedirect"} {
			v.RequireStore(rule, 1, "recv."+f, fmt.Sprintf("arg%d", i))
			v.RequireStore(rule, 1, il+"."+f, fmt.Sprintf("arg%d", i))
		}
	}
	if v := c.View(prov + ".NewInternalLink"); v != nil {
		for _, f := range []string{"dispatchStart", "dispatchEnd", "dispatchRedirect"} {
			v.RequireStore(rule, 1, "local:complit."+f, "recv."+f)
		}
	}
	// write set: nobody else writes the link's copy
	writers := map[string]bool{}
	if sp := c.Prog.SSAPkgs[modPath+"/router/underlayproviders/udpip"]; sp != nil {
		for fn := range c.Prog.AllFuncs() {
			if fn.Pkg != sp || fn.Blocks == nil {
				continue
			}
			s := NewSymer()
			for _, b := range fn.Blocks {
				for _, in := range b.Instrs {
					if st, ok := in.(*ssa.Store); ok {
						a := s.Sym(st.Addr)
						if strings.HasSuffix(a, ".dispatchStart") || strings.HasSuffix(a, ".dispatchEnd") ||
							strings.HasSuffix(a, ".dispatchRedirect") {
							writers[FuncName(fn)] = true
						}
					}
				}
			}
		}
	}
	for w := range writers {
		c.Check(w == prov+".SetDispatchPorts" || w == prov+".NewInternalLink", rule, "writer:"+w, 0,
			"writes the dispatch range; audited writers: SetDispatchPorts (provider and live link), NewInternalLink (copy)")
	}
	c.Min("dispatch-range-writers", len(writers), 2)

	// T1: Resolve
	if fn := c.Fn("(*router/underlayproviders/udpip.internalLink).Resolve"); fn != nil {
		ipT, svcT := c.Const("pkg/addr.HostTypeIP"), c.Const("pkg/addr.HostTypeSVC")
		anyCall := "(*router.Services[net/netip.AddrPort]).Any(recv.svc, (pkg/addr.SVC).Base((pkg/addr.Host).SVC(arg1)))"
		RunTable(c, &TableSpec{Rule: "T1-resolve-table", Fn: fn,
			NoInline: append([]string{"(*router.Services[*", "(pkg/addr.*"}, noInlineDefault...),
			Atoms: []Atom{
				{Name: "type", Pats: []string{"(pkg/addr.Host).Type(arg1)"}, Domain: []string{ipT, svcT}},
				{Name: "svcFound", Pats: []string{anyCall + "#1"}, Domain: boolDom()},
				{Name: "is4in6", Pats: []string{"(net/netip.Addr).Is4In6((pkg/addr.Host).IP(arg1))"}, Domain: boolDom()},
				{Name: "unspec", Pats: []string{"(net/netip.Addr).IsUnspecified((pkg/addr.Host).IP(arg1))"}, Domain: boolDom()},
				{Name: "below", Pats: []string{"(phi(* | arg2) < recv.dispatchStart)", "(recv.dispatchStart > phi(* | arg2))"}, Domain: boolDom()},
				{Name: "above", Pats: []string{"(phi(* | arg2) > recv.dispatchEnd)", "(recv.dispatchEnd < phi(* | arg2))"}, Domain: boolDom()},
			},
			Effects: []string{"local:complit.Port"},
			Oracle: func(a map[string]string) map[string]string {
				if a["below"] == "true" && a["above"] == "true" {
					return nil // impossible for start <= end
				}
				isIP := a["type"] == ipT
				if isIP && (a["is4in6"] == "true" || a["unspec"] == "true") {
					return map[string]string{"ret": "sym:global:router.*", "local:complit.Port": ""}
				}
				if !isIP && a["svcFound"] == "false" {
					return map[string]string{"ret": "sym:global:router.ErrNoSVCBackend", "local:complit.Port": ""}
				}
				if a["below"] == "true" || a["above"] == "true" {
					return map[string]string{"ret": "nil", "local:complit.Port": "sym:int(recv.dispatchRedirect)"}
				}
				if isIP {
					return map[string]string{"ret": "nil", "local:complit.Port": "sym:int(arg2)"}
				}
				return map[string]string{"ret": "nil", "local:complit.Port": "sym:int((net/netip.AddrPort).Port(" + anyCall + "#0))"}
			}})
		v := ViewOf(c, fn)
		v.RequireStore("T1-resolve-table", 1, "arg0.RemoteAddr", "unsafe.Pointer(local:complit)")
	}
	// P1: where the port comes from
	if v := c.View("(*router.dataPlane).dstScionPort"); v != nil {
		n := 0
		for _, ci := range v.Calls("(encoding/binary.bigEndian).Uint16") {
			n++
			c.Check(wild("invoke:github.com/gopacket/gopacket.DecodingLayer.LayerPayload(arg0; )[2:]", ci.Args[1]),
				"P1-port-source", fmt.Sprintf("%s:l4-destination-port-%d", v.Name(), n), ci.In.Pos(),
				"the UDP/TCP destination port is read at payload offset 2: "+ci.Args[1])
		}
		c.Min("dstScionPort:port-reads", n, 2)
		e := NewE1(c, v.Fn)
		// the length guards precede the reads
		var reads []ssa.Instruction
		for _, ci := range v.Calls("(encoding/binary.bigEndian).Uint16") {
			reads = append(reads, ci.In.(ssa.Instruction))
		}
		e.Require("P1-port-source", "header-long-enough", nil, reads,
			e.AtomGuard("len>=8", "-lt(builtin:len(invoke:github.com/gopacket/gopacket.DecodingLayer.LayerPayload(arg0; )), 8)",
				"-lt(builtin:len(invoke:github.com/gopacket/gopacket.DecodingLayer.LayerPayload(arg0; )), 20)"))
	}
	if fn := c.Fn("router.getDstPortSCMP"); fn != nil {
		v := ViewOf(c, fn)
		e := NewE1(c, fn)
		// returns: EndhostPort for requests, identifiers for replies
		okReq, okEcho, okTr := false, false, false
		for _, r := range e.SuccessReturns() {
			ret := r.(*ssa.Return)
			s := v.S.Sym(RetVal(ret, 0))
			switch {
			case s == c.Const("private/topology.EndhostPort") || s == "30041":
				okReq = true
			case s == "local:scmpEcho.Identifier":
				okEcho = true
			case s == "local:scmpTraceroute.Identifier":
				okTr = true
			}
		}
		c.Check(okReq && okEcho && okTr, "P1-port-source", FuncName(fn)+":info-message-ports", fn.Pos(),
			fmt.Sprintf("requests→30041 (%v), echo reply→identifier (%v), traceroute reply→identifier (%v)", okReq, okEcho, okTr))
	}
}
