package main

import (
	"fmt"
	"strings"

	"golang.org/x/tools/go/ssa"
)

// C05, which interface a transit packet is bound to: ingressInterface() names the
// interface the packet entered the AS through. That is the current hop field's
// interface, except right after a segment change that is NOT a peering change,
// where it is the previous segment's last hop field. On a peering hop the
// previous hop field belongs to the peer AS and is never verified here, so it
// must not be consulted. Decided: the previous info/hop field are read only
// behind "not peering" and "first hop after a cross-over", from index
// CurrINF-1 / CurrHF-1; the interface is the construction-direction ingress when
// the chosen info field is in construction direction and the egress otherwise;
// egressInterface is the mirror image on the current hop field.
func c05IngressInterface(c *Ctx) {
	rule := "I1-ingress-interface-source"
	v := c.View(procT + ".ingressInterface")
	if v == nil {
		return
	}
	e := NewE1(c, v.Fn)
	rawT := "(*pkg/slayers/path/scion.Raw)"
	var prev []ssa.Instruction
	for _, name := range []string{rawT + ".GetInfoField", rawT + ".GetHopField"} {
		prev = append(prev, e.CallSites(name)...)
	}
	c.Min("ingressInterface:previous-field-reads", len(prev), 2)
	e.Require(rule, "previous-segment-consulted", nil, prev,
		e.AtomGuard("not a peering hop", "-true(recv.peering)"),
		e.AtomGuard("first hop after a cross-over", "+true((*pkg/slayers/path/scion.Base).IsFirstHopAfterXover(*))"))
	v.RequireCallArgs(rule, 1, rawT+".GetInfoField", "recv.path", "(int(recv.path.Base.PathMeta.CurrINF) - 1)")
	v.RequireCallArgs(rule, 1, rawT+".GetHopField", "recv.path", "(int(recv.path.Base.PathMeta.CurrHF) - 1)")
	// the returned member follows the direction of the chosen info field
	okDir, n := true, 0
	for _, b := range v.Fn.Blocks {
		r, ok := b.Instrs[len(b.Instrs)-1].(*ssa.Return)
		if !ok {
			continue
		}
		n++
		ret := v.S.Sym(r.Results[0])
		cons := false
		found := false
		for _, l := range dominatingLits(b) {
			if l.Kind == "true" && strings.HasSuffix(l.String(v.S), ".ConsDir)") {
				cons, found = l.Pos, true
			}
		}
		want := ".ConsEgress"
		if cons {
			want = ".ConsIngress"
		}
		okDir = okDir && found && strings.HasSuffix(ret, want)
	}
	c.Check(okDir && n == 2, rule, v.Name()+":member-by-direction", v.Fn.Pos(),
		fmt.Sprintf("%d returns: ConsIngress in construction direction, ConsEgress against it", n))
	if ev := c.View(procT + ".egressInterface"); ev != nil {
		okE, nE := true, 0
		for _, b := range ev.Fn.Blocks {
			r, ok := b.Instrs[len(b.Instrs)-1].(*ssa.Return)
			if !ok {
				continue
			}
			nE++
			ret := ev.S.Sym(r.Results[0])
			for _, l := range dominatingLits(b) {
				if l.Kind == "true" && l.String(ev.S) == "+true(recv.infoField.ConsDir)" {
					okE = okE && ret == "recv.hopField.ConsEgress"
				}
				if l.Kind == "true" && l.String(ev.S) == "-true(recv.infoField.ConsDir)" {
					okE = okE && ret == "recv.hopField.ConsIngress"
				}
			}
		}
		c.Check(okE && nE == 2, rule, ev.Name()+":member-by-direction", ev.Fn.Pos(), "ConsEgress in construction direction, ConsIngress against it, of the current hop field")
	}
}
