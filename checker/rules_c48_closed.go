package main

import (
	"fmt"

	"golang.org/x/tools/go/ssa"
)

// C48, "after close writes fail": Ring.Write hands its entries to the ring only
// when it has seen r.closed == false SINCE IT LAST HELD THE LOCK CONTINUOUSLY,
// i.e. after the last Cond.Wait() on the path (Wait releases the mutex, Close
// may have run meanwhile; being woken with free space does not mean the ring is
// still open). Path-sensitive typestate (E6): the fact "closed was read as
// false" is established by a load of r.closed with outcome false and destroyed
// by every call of Wait; the transfer (write / the counter updates) requires it.
func c48ClosedRechecked(c *Ctx) {
	rule := "C1-closed-rechecked-after-wait"
	v := c.View("(*private/ringbuf.Ring).Write")
	if v == nil {
		return
	}
	const known uint32 = 1
	isClosedLoad := func(x ssa.Value) bool {
		u, ok := x.(*ssa.UnOp)
		return ok && u.Op.String() == "*" && v.S.Sym(u.X) == "recv.closed"
	}
	nWait, nSink := 0, 0
	spec := &PSSpec{Fn: v.Fn, Init: 0}
	spec.Instr = func(in ssa.Instruction, bits uint32) uint32 {
		if call, ok := in.(ssa.CallInstruction); ok && calleeName(call.Common()) == "(*sync.Cond).Wait" {
			return bits &^ known
		}
		return bits
	}
	spec.Leaf = func(val ssa.Value, out bool, bits uint32) uint32 {
		if isClosedLoad(val) {
			if !out {
				return bits | known
			}
			return bits &^ known
		}
		return bits
	}
	spec.Sink = func(in ssa.Instruction, bits uint32) string {
		isSink := false
		switch x := in.(type) {
		case *ssa.Call:
			isSink = calleeName(x.Common()) == "(*private/ringbuf.Ring).write"
		case *ssa.Store:
			s := v.S.Sym(x.Addr)
			isSink = s == "recv.writable" || s == "recv.readable"
		}
		if isSink && bits&known == 0 {
			return "entries are handed to the ring on a path on which r.closed was not seen false after the last Wait() (Close may have run while the writer was parked)"
		}
		return ""
	}
	for _, b := range v.Fn.Blocks {
		for _, in := range b.Instrs {
			if call, ok := in.(ssa.CallInstruction); ok {
				switch calleeName(call.Common()) {
				case "(*sync.Cond).Wait":
					nWait++
				case "(*private/ringbuf.Ring).write":
					nSink++
				}
			}
		}
	}
	c.Check(nWait >= 1 && nSink == 1, rule, v.Name()+":shape", v.Fn.Pos(), fmt.Sprintf("%d Wait call(s), %d transfer site(s)", nWait, nSink))
	viol, states := RunPS(spec)
	if len(viol) == 0 {
		c.OK(rule, v.Name()+":typestate", v.Fn.Pos(), fmt.Sprintf("%d abstract states: every transfer follows a read of closed == false that no Wait() separates from it", states))
		return
	}
	c.Fail(rule, v.Name()+":typestate", viol[0].Pos, viol[0].Msg+"; path "+traceString(viol[0].Trace))
}
