package main

import (
	"fmt"
	"sort"
	"strings"

	"golang.org/x/tools/go/ssa"
)

// C29 - completeness of path combination. What is decided is one necessary
// condition: NOTHING IS LEFT OUT OF THE SEARCH except by the stated predicates.
// The conditions under which an element is skipped are read off the control
// dependence of the insertion / enqueue sites (the branch literals that
// dominate them, minus the mechanics of the enclosing loops) and must be a
// subset of what the specification allows.

func init() {
	register(&PropRule{
		ID:    "C29",
		Roots: []string{"./private/path/combinator"},
		Explain: "Decides that nothing is left out of the search except by the stated predicates - a necessary " +
			"condition of 'every obtainable interface sequence is returned'. (S1) newDMG hands every element " +
			"of ups, cores and downs to traverseSegment with its own type, unconditionally. (S2) " +
			"traverseSegment adds the edge last->first for a core segment; otherwise it visits every AS " +
			"entry index from len-1 down to 0, creates a direct edge for every index except the pinned " +
			"(last) one and a peering edge for every peer entry of every index, and adds every such tuple " +
			"with the entry index as shortcut and the peer entry index + 1 as peer id; no other condition " +
			"skips an entry. (S3) AddEdge stores the edge under (src, dst, segment) unconditionally. (S4) " +
			"GetPaths: every edge out of the current vertex whose segment passes validNextSeg (decided as a " +
			"table under C28) is recorded as a solution when it reaches the destination and enqueued " +
			"otherwise; nothing else filters, and the queue is processed until it is empty. (S5) Combine " +
			"converts every solution into a path and drops paths only in filterLongPaths and, unless all " +
			"identical paths are requested, filterDuplicates. NOT decided: that the graph so built has a " +
			"walk for every obtainable interface sequence (the modelling of shortcuts and peering links as " +
			"vertices), which needs a reference search to compare with.",
		Run: runC29,
	})
	setClaim("C29", claim{
		Text: "No segment, AS entry, peer entry, edge or solution is skipped except by validNextSeg, the pinned-entry " +
			"exception and the two documented filters.",
		Note: claimNote, Technique: "static analysis: control dependence of insertion/enqueue sites (dominating branch " +
			"literals minus loop mechanics) against the allowed predicates; loop index structure; call-argument pairing",
		Ref: "DESIGN.md §0.8 C29"})
	gf := "private/path/combinator/graph.go"
	addMutants(
		Mutant{Prop: "C29", Name: "peering-edges-only-for-core-adjacent-entries", File: gf,
			Old: `		for peerEntryIdx, peer := range asEntries[asEntryIndex].PeerEntries {`,
			New: `		for peerEntryIdx, peer := range asEntries[asEntryIndex].PeerEntries {
			if asEntryIndex == 0 {
				continue
			}`, Expect: "S2-every-entry-becomes-edges"},
		Mutant{Prop: "C29", Name: "first-entry-not-visited", File: gf,
			Old: `	for asEntryIndex := len(asEntries) - 1; asEntryIndex >= 0; asEntryIndex-- {`,
			New: `	for asEntryIndex := len(asEntries) - 1; asEntryIndex > 0; asEntryIndex-- {`, Expect: "S2-every-entry-becomes-edges"},
		Mutant{Prop: "C29", Name: "search-stops-at-first-solution-per-vertex", File: gf,
			Old: `				if nextVertex == dst {
					solutions = append(solutions, newSolution)
					// Do not break, because we want all solutions
				} else {`, New: `				if nextVertex == dst {
					if len(solutions) < 32 {
						solutions = append(solutions, newSolution)
					}
				} else {`, Expect: "S4-search-explores-every-edge"},
		Mutant{Prop: "C29", Name: "down-segments-capped", File: gf,
			Old: `	for _, segment := range downs {`, New: `	for i, segment := range downs {
		if i >= 64 {
			break
		}`, Expect: "S1-every-segment-enters-the-graph"},
		Mutant{Prop: "C29", Name: "existing-edge-not-replaced-nor-added", File: gf,
			Old: `	neighborMap[dst][segment] = e
}`, New: `	if len(neighborMap[dst]) < 8 {
		neighborMap[dst][segment] = e
	}
}`, Expect: "S3-edge-stored"},
		Mutant{Prop: "C29", Name: "extra-filter-in-combine", File: "private/path/combinator/combinator.go",
			Old: `	paths = filterLongPaths(paths)
	if !findAllIdentical {`, New: `	paths = filterLongPaths(paths)
	if len(paths) > 128 {
		paths = paths[:128]
	}
	if !findAllIdentical {`, Expect: "S5-only-documented-filters"},
	)
}

// loopMechanics: literals that only say "the enclosing loop is still running".
func loopMechanics(s string) bool {
	for _, p := range []string{
		"+true(next(range(*))#0)",
		"+lt(phi(*), builtin:len(*))", "+lt((phi(*) + 1), builtin:len(*))",
		"+lt(0, builtin:len(*))", "-eq(builtin:len(*), 0)",
		"+lt((phi(*) + 1), *)", "+lt(phi(*), *)",
		// an earlier loop that ran to its end (the exit edge of its own condition)
		"-true(next(range(*))#0)", "-lt(phi(*), builtin:len(*))", "-lt((phi(*) + 1), builtin:len(*))",
		"-lt(0, builtin:len(*))",
	} {
		if wild(p, s) {
			// a comparison of the loop variable with a literal number is a cap, not the
			// loop's own bound
			if i := strings.LastIndex(s, ", "); i >= 0 && strings.HasPrefix(s, "+lt(") {
				rhs := strings.TrimSuffix(s[i+2:], ")")
				if _, err := fmt.Sscanf(rhs, "%d", new(int)); err == nil && !strings.ContainsAny(rhs, "(.[") {
					continue
				}
			}
			return true
		}
	}
	return false
}

// skipConditions: the branch literals that dominate in, without loop mechanics.
func skipConditions(v *FnView, in ssa.Instruction) []string {
	var out []string
	for _, l := range dominatingLits(in.Block()) {
		s := l.String(v.S)
		if loopMechanics(s) {
			continue
		}
		out = append(out, s)
	}
	sort.Strings(out)
	return out
}

// onlyConditions checks that every condition matches one of the allowed patterns.
func onlyConditions(c *Ctx, rule, construct string, v *FnView, in ssa.Instruction, what string, allowed ...string) bool {
	var extra []string
	for _, s := range skipConditions(v, in) {
		ok := false
		for _, a := range allowed {
			if wild(a, s) {
				ok = true
			}
		}
		if !ok {
			extra = append(extra, s)
		}
	}
	return c.Check(len(extra) == 0, rule, construct, in.Pos(), what+"; conditions that are not part of the specification: "+
		strings.Join(truncList(extra, 3), " | "))
}

func runC29(c *Ctx) {
	pk := "private/path/combinator."
	segTypes := map[string]string{"arg0": c.Const("pkg/private/ctrl/path_mgmt/proto.PathSegType_up"),
		"arg1": c.Const("pkg/private/ctrl/path_mgmt/proto.PathSegType_core"), "arg2": c.Const("pkg/private/ctrl/path_mgmt/proto.PathSegType_down")}
	// S1
	segmentsEnterGraph(c, "S1-every-segment-enters-the-graph")
	core := segTypes["arg1"]
	c29Rest(c, pk, core)
}

// segmentsEnterGraph: every segment of the three input lists is traversed into the
// graph, under its own type (C29 S1; C28 relies on it for "of the constructions
// with the same interfaces the one that expires last is kept": a construction
// that never enters the graph cannot be chosen).
func segmentsEnterGraph(c *Ctx, rule string) {
	pk := "private/path/combinator."
	segTypes := map[string]string{"arg0": c.Const("pkg/private/ctrl/path_mgmt/proto.PathSegType_up"),
		"arg1": c.Const("pkg/private/ctrl/path_mgmt/proto.PathSegType_core"), "arg2": c.Const("pkg/private/ctrl/path_mgmt/proto.PathSegType_down")}
	if v := c.View(pk + "newDMG"); v != nil {
		got := map[string]string{}
		n := 0
		for _, ci := range v.Calls("(*" + pk + "dmg).traverseSegment") {
			n++
			in := ci.In.(ssa.Instruction)
			al, ok := ci.In.Common().Args[1].(*ssa.Alloc)
			if !ok || al.Referrers() == nil {
				continue
			}
			var elem, typ string
			for _, r := range *al.Referrers() {
				fa, ok := r.(*ssa.FieldAddr)
				if !ok || fa.Referrers() == nil {
					continue
				}
				for _, rr := range *fa.Referrers() {
					st, ok := rr.(*ssa.Store)
					if !ok || st.Addr != fa {
						continue
					}
					switch fieldName(fa.X.Type(), fa.Field) {
					case "PathSegment":
						elem = v.S.Sym(st.Val)
					case "Type":
						typ = v.S.Sym(st.Val)
					}
				}
			}
			param := ""
			for p := range segTypes {
				if strings.HasPrefix(elem, p+"[") {
					param = p
				}
			}
			got[param] = typ
			// the loop visits every index of the parameter: index phi from 0 (or -1 rotated) by +1
			okIdx := false
			if ld, isLoad := ci.In.Common().Args[1].(*ssa.Alloc); isLoad {
				_ = ld
			}
			for _, b := range v.Fn.Blocks {
				for _, x := range b.Instrs {
					if ia, isIA := x.(*ssa.IndexAddr); isIA && strings.HasPrefix(v.S.Sym(ia), param+"[") && param != "" {
						okIdx = okIdx || loopIndex(ia.Index, 0, 1)
					}
				}
			}
			c.Check(okIdx, rule, v.Name()+":"+param+":every-index", in.Pos(), "the loop over "+param+" runs over every index from 0 in steps of 1")
			onlyConditions(c, rule, v.Name()+":"+param+":unconditional", v, in, "traverseSegment is called for every element of "+param)
		}
		okTypes := n == 3
		for p, t := range segTypes {
			okTypes = okTypes && got[p] == t && t != ""
		}
		c.Check(okTypes, rule, v.Name()+":types", v.Fn.Pos(), fmt.Sprintf("ups/cores/downs enter as up/core/down: %v", got))
	}
}

func c29Rest(c *Ctx, pk string, core string) {
	// S2
	if v := c.View("(*" + pk + "dmg).traverseSegment"); v != nil {
		rule := "S2-every-entry-becomes-edges"
		notCore := "-eq(arg0.Type, " + core + ")"
		isCore := "+eq(arg0.Type, " + core + ")"
		calls := v.Calls("(*" + pk + "dmg).AddEdge")
		c.Min("traverseSegment:AddEdge", len(calls), 2)
		nLoop := 0
		for _, ci := range calls {
			in := ci.In.(ssa.Instruction)
			if cyclic(in.Block()) {
				nLoop++
				onlyConditions(c, rule, v.Name()+":tuple-edge-added", v, in, "every collected tuple is added as an edge", notCore, "-lt(phi(*), 0)")
				// shortcut = entry index, peer = tuple's peer id
				if al, ok := ci.In.Common().Args[4].(*ssa.Alloc); ok {
					c.Check(allocFieldIs(v, al, "Shortcut", func(x ssa.Value) bool { return loopIndexFromAny(x, -1) }), rule,
						v.Name()+":edge-shortcut", in.Pos(), "the edge's shortcut is the AS entry index")
				}
			} else {
				onlyConditions(c, rule, v.Name()+":core-edge-added", v, in, "the core edge is added for every core segment", isCore)
			}
		}
		c.Check(nLoop == 1, rule, v.Name()+":one-insertion-site", v.Fn.Pos(), fmt.Sprintf("%d AddEdge call(s) inside the loops", nLoop))
		// tuple appends: one for the direct edge (skipped only for the pinned entry), one per peer entry
		var direct, peer []ssa.Instruction
		for _, ci := range v.Calls("builtin:append") {
			in := ci.In.(ssa.Instruction)
			if !cyclic(in.Block()) {
				continue
			}
			inner := false
			for _, l := range dominatingLits(in.Block()) {
				if s := l.String(v.S); wild("+lt(*, builtin:len(*.PeerEntries))", s) {
					inner = true
				}
			}
			if inner {
				peer = append(peer, in)
			} else {
				direct = append(direct, in)
			}
		}
		c.Check(len(direct) == 1 && len(peer) == 1, rule, v.Name()+":tuple-sites", v.Fn.Pos(),
			fmt.Sprintf("%d direct-edge tuple site(s), %d peering tuple site(s)", len(direct), len(peer)))
		for _, in := range direct {
			onlyConditions(c, rule, v.Name()+":direct-tuple", v, in, "a direct edge is collected for every entry but the pinned one",
				notCore, "-eq(phi(*), (builtin:len(arg0.PathSegment.ASEntries) - 1))",
				"-eq((builtin:len(arg0.PathSegment.ASEntries) - 1), phi(*))", "-lt(phi(*), 0)")
		}
		for _, in := range peer {
			onlyConditions(c, rule, v.Name()+":peer-tuple", v, in, "a peering edge is collected for every peer entry of every entry",
				notCore, "-lt(phi(*), 0)")
		}
		// the entry loop: from len-1 down to 0 inclusive
		okLoop := false
		for _, b := range v.Fn.Blocks {
			for _, x := range b.Instrs {
				phi, isPhi := x.(*ssa.Phi)
				if !isPhi || !cyclic(b) {
					continue
				}
				if loopIndexFrom(phi, "(builtin:len(arg0.PathSegment.ASEntries) - 1)", -1, v.S) {
					// exits only when the index is below zero
					for i := range b.Succs {
						lits, _ := edgeLits(b, i, nil)
						for _, l := range lits {
							if l.Kind == "lt" && l.X == ssa.Value(phi) && l.String(v.S) != "" {
								if k, isK := foldInt(l.Y); isK && k == 0 {
									okLoop = true
								}
							}
						}
					}
				}
			}
		}
		c.Check(okLoop, rule, v.Name()+":entry-loop", v.Fn.Pos(), "the entry index runs from len(ASEntries)-1 down to 0, leaving the loop only below 0")
	}
	// S3
	if v := c.View("(*" + pk + "dmg).AddEdge"); v != nil {
		rule := "S3-edge-stored"
		n := 0
		for _, b := range v.Fn.Blocks {
			for _, in := range b.Instrs {
				mu, ok := in.(*ssa.MapUpdate)
				if !ok || v.S.Sym(mu.Key) != "arg2" {
					continue
				}
				n++
				c.Check(v.S.Sym(mu.Value) == "arg3", rule, v.Name()+":value", mu.Pos(), "the edge stored under the segment is the one handed in")
				onlyConditions(c, rule, v.Name()+":unconditional", v, in, "the edge is stored for every call")
			}
		}
		c.Check(n == 1, rule, v.Name()+":store", v.Fn.Pos(), fmt.Sprintf("%d store(s) of an edge under its segment", n))
	}
	// S4
	if v := c.View("(*" + pk + "dmg).GetPaths"); v != nil {
		rule := "S4-search-explores-every-edge"
		valid := "+true(" + pk + "validNextSeg(*))"
		var atDst, notDst []ssa.Instruction
		for _, ci := range v.Calls("builtin:append") {
			in := ci.In.(ssa.Instruction)
			if !cyclic(in.Block()) {
				continue
			}
			conds := skipConditions(v, in)
			kind := ""
			for _, s := range conds {
				if wild("+eq(arg1, *)", s) || wild("+eq(*, arg1)", s) {
					kind = "dst"
				}
				if wild("-eq(arg1, *)", s) || wild("-eq(*, arg1)", s) {
					kind = "other"
				}
			}
			switch kind {
			case "dst":
				atDst = append(atDst, in)
			case "other":
				notDst = append(notDst, in)
			default:
				continue // building the new solution's own edge list
			}
			onlyConditions(c, rule, v.Name()+":"+kind+":only-validNextSeg", v, in,
				"an edge is followed whenever its segment is a valid next segment", valid, "+eq(arg1, *)", "-eq(arg1, *)", "+eq(*, arg1)", "-eq(*, arg1)")
		}
		c.Check(len(atDst) == 1 && len(notDst) == 1, rule, v.Name()+":recorded-or-enqueued", v.Fn.Pos(),
			fmt.Sprintf("%d site(s) recording a solution at the destination, %d site(s) enqueueing otherwise", len(atDst), len(notDst)))
		// what is returned is the slice of recorded solutions itself (sorted in place):
		// nothing is removed from it afterwards
		okRet, nRet := true, 0
		var walk func(x ssa.Value, seen map[ssa.Value]bool) bool
		walk = func(x ssa.Value, seen map[ssa.Value]bool) bool {
			if seen[x] {
				return true
			}
			seen[x] = true
			switch y := x.(type) {
			case *ssa.Const:
				return y.IsNil()
			case *ssa.Phi:
				for _, e := range y.Edges {
					if !walk(e, seen) {
						return false
					}
				}
				return true
			case *ssa.Call:
				if calleeName(y.Common()) != "builtin:append" {
					return false
				}
				for _, in := range atDst {
					if in == ssa.Instruction(y) {
						return walk(y.Common().Args[0], seen)
					}
				}
				return false
			}
			return false
		}
		for _, b := range v.Fn.Blocks {
			if r, ok := b.Instrs[len(b.Instrs)-1].(*ssa.Return); ok {
				nRet++
				okRet = okRet && walk(r.Results[0], map[ssa.Value]bool{})
			}
		}
		c.Check(okRet && nRet >= 1, rule, v.Name()+":returns-all-recorded", v.Fn.Pos(),
			"returns the slice of recorded solutions itself; no filtering, compaction or truncation after the search")
		for _, ci := range v.Calls("slices.*") {
			name := calleeName(ci.In.Common())
			c.Check(strings.HasPrefix(name, "slices.SortFunc") || strings.HasPrefix(name, "slices.SortStableFunc"), rule,
				v.Name()+":only-sorting:"+name, ci.In.(ssa.Instruction).Pos(), "the only slice operation after the search is sorting")
		}
	}
	// S5
	if v := c.View(pk + "Combine"); v != nil {
		rule := "S5-only-documented-filters"
		e := NewE1(c, v.Fn)
		// the returned slice is paths after filterLongPaths (and filterDuplicates unless findAllIdentical)
		okRet := true
		nRet := 0
		for _, r := range e.AllReturns() {
			nRet++
			s := v.S.Sym(r.(*ssa.Return).Results[0])
			want1 := "phi(" + pk + "filterDuplicates(" + pk + "filterLongPaths(*)) | " + pk + "filterLongPaths(*))"
			want2 := "phi(" + pk + "filterLongPaths(*) | " + pk + "filterDuplicates(" + pk + "filterLongPaths(*)))"
			okRet = okRet && (wild(want1, s) || wild(want2, s))
		}
		c.Check(okRet && nRet == 1, rule, v.Name()+":returned", v.Fn.Pos(), "returns filterLongPaths(paths), through filterDuplicates unless all identical paths are requested")
		v.RequireCallArgs(rule, 1, "(*"+pk+"dmg).GetPaths", pk+"newDMG(arg2, arg3, arg4)", pk+"vertexFromIA(arg0)", pk+"vertexFromIA(arg1)")
		// every solution is converted
		nConv := 0
		for _, ci := range v.Calls("(*" + pk + "pathSolution).Path") {
			nConv++
			in := ci.In.(ssa.Instruction)
			onlyConditions(c, rule, v.Name()+":every-solution-converted", v, in, "every solution becomes a path")
		}
		c.Check(nConv == 1, rule, v.Name()+":conversion-site", v.Fn.Pos(), fmt.Sprintf("%d conversion site(s)", nConv))
		okLen := false
		for _, b := range v.Fn.Blocks {
			for _, in := range b.Instrs {
				if ms, ok := in.(*ssa.MakeSlice); ok && wild("builtin:len((*"+pk+"dmg).GetPaths(*))", v.S.Sym(ms.Len)) {
					okLen = true
				}
			}
		}
		c.Check(okLen, rule, v.Name()+":one-path-per-solution", v.Fn.Pos(), "the path slice has one slot per solution")
	}
}

// allocFieldIs: the value stored into field name of the struct literal al satisfies pred.
func allocFieldIs(v *FnView, al *ssa.Alloc, name string, pred func(ssa.Value) bool) bool {
	if al.Referrers() == nil {
		return false
	}
	for _, r := range *al.Referrers() {
		fa, ok := r.(*ssa.FieldAddr)
		if !ok || fa.Referrers() == nil || fieldName(fa.X.Type(), fa.Field) != name {
			continue
		}
		for _, rr := range *fa.Referrers() {
			if st, ok := rr.(*ssa.Store); ok && st.Addr == fa {
				return pred(st.Val)
			}
		}
	}
	return false
}

// loopIndexFromAny: v is a loop variable advancing by step (whatever its start).
func loopIndexFromAny(v ssa.Value, step int64) bool {
	phi, ok := v.(*ssa.Phi)
	if !ok {
		return false
	}
	for _, ed := range phi.Edges {
		if bo, isB := ed.(*ssa.BinOp); isB && bo.X == ssa.Value(phi) {
			k, isK := foldInt(bo.Y)
			if isK && ((bo.Op.String() == "+" && k == step) || (bo.Op.String() == "-" && k == -step)) {
				return true
			}
		}
	}
	return false
}
