package main

import (
	"fmt"
	"go/constant"
	"sort"
	"strings"

	"golang.org/x/tools/go/ssa"
)

// C38, "an algorithm inconsistent with the key is rejected": checkPubKeyAlgo
// accepts only a listed algorithm, only an ECDSA public key, and only when the
// listed algorithm's key family is ECDSA; the table of listed algorithms holds
// exactly the known algorithms, none of them the unknown one, each with a key
// family and a hash (without a hash the signature input would be the raw
// message, of which ECDSA only looks at the first bytes).
func c38AlgoConsistency(c *Ctx) {
	rule := "K1-algorithm-matches-key"
	sp := "pkg/scrypto/signed."
	if v := c.View(sp + "checkPubKeyAlgo"); v != nil {
		e := NewE1(c, v.Fn)
		tbl := "global:" + sp + "signatureAlgorithmDetails[arg0]"
		e.Require(rule, "accepted", nil, e.SuccessReturns(),
			e.AtomGuard("algorithm is listed", "+ok("+tbl+")", "+true("+tbl+"#1)"),
			e.AtomGuard("key is an ECDSA public key", "+ok(arg1.(*crypto/ecdsa.PublicKey))", "+true(arg1.(*crypto/ecdsa.PublicKey)#1)"),
			e.AtomGuard("the algorithm's key family is ECDSA", "+eq("+tbl+"#0.pubKeyAlgo, "+c.Const(sp+"pkECDSA")+")"))
		c.Min("checkPubKeyAlgo:success-returns", len(e.SuccessReturns()), 1)
	}
	// who calls it: Sign and Verify, before anything is signed / accepted
	for _, q := range []string{sp + "Sign", sp + "Verify"} {
		if v := c.View(q); v != nil {
			e := NewE1(c, v.Fn)
			e.Require(rule, "algorithm-checked", nil, e.SuccessReturns(), e.CallGuard(PassErrNil, sp+"checkPubKeyAlgo"))
		}
	}
	// the table
	init := c.Fn(sp + "init")
	if init == nil {
		return
	}
	S := NewSymer()
	entries := map[string]map[string]string{}
	for _, b := range init.Blocks {
		for _, in := range b.Instrs {
			mu, ok := in.(*ssa.MapUpdate)
			if !ok || !strings.Contains(typeShort(mu.Map.Type()), sp+"SignatureAlgorithm]struct{name string") {
				continue
			}
			key := S.Sym(mu.Key)
			fields := map[string]string{}
			// value: load of a struct literal alloc
			if ld, isLd := mu.Value.(*ssa.UnOp); isLd {
				if al, isAl := ld.X.(*ssa.Alloc); isAl && al.Referrers() != nil {
					for _, r := range *al.Referrers() {
						fa, isFA := r.(*ssa.FieldAddr)
						if !isFA || fa.Referrers() == nil {
							continue
						}
						for _, rr := range *fa.Referrers() {
							if st, isSt := rr.(*ssa.Store); isSt && st.Addr == fa {
								fields[fieldName(fa.X.Type(), fa.Field)] = S.Sym(st.Val)
							}
						}
					}
				}
			}
			entries[key] = fields
		}
	}
	var keys []string
	okAll := true
	for k, f := range entries {
		keys = append(keys, k)
		zeroHash := f["hash"] == "" || strings.HasPrefix(f["hash"], "0")
		okAll = okAll && f["pubKeyAlgo"] == c.Const(sp+"pkECDSA") && !zeroHash && f["name"] != ""
	}
	sort.Strings(keys)
	unknown := c.Const(sp + "UnknownSignatureAlgorithm")
	for _, k := range keys {
		okAll = okAll && k != unknown
	}
	want := []string{c.Const(sp + "ECDSAWithSHA256"), c.Const(sp + "ECDSAWithSHA384"), c.Const(sp + "ECDSAWithSHA512")}
	sort.Strings(want)
	c.Check(okAll && strings.Join(keys, ",") == strings.Join(want, ","), rule, "signatureAlgorithmDetails", init.Pos(),
		fmt.Sprintf("listed algorithms %v (required exactly %v), each with the ECDSA key family and a hash", keys, want))
	_ = constant.Int
}
