#!/bin/sh
# usage: seedquick.sh <property id> <patch.diff> : like seedtest.sh but without re-checking the
# unchanged tree afterwards and without writing evidence (for bulk replays)
id=$1; patch=$2
cd /repo || exit 2
git diff --quiet || { echo "/repo has uncommitted changes"; exit 2; }
git apply "$patch" || { echo "patch does not apply"; exit 2; }
cd /verif; . ./env.sh
bin/scionvet -prop "$id" -tier quick -no-evidence > /tmp/seedquick.$id.out 2>&1; rc=$?
git -C /repo checkout -- .
echo "exit=$rc"; grep -E "VIOLATED|UNDECIDED" /tmp/seedquick.$id.out | cut -c1-300 | head -3
