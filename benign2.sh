#!/bin/sh
# usage: benign2.sh <patch> <id...> : benigntest on the scratch worktree /tmp/wt/chk1
# (create the scratch worktree first: git -C /repo worktree add --detach /tmp/wt/chk1 HEAD; remove it afterwards with git -C /repo worktree remove --force /tmp/wt/chk1)
cd /verif; . ./env.sh; R=/tmp/wt/chk1
p=$1; shift
git -C $R checkout -q -- . ; git -C $R clean -fdq
git -C $R apply "$p" || { echo "patch does not apply"; exit 2; }
for id in "$@"; do bin/scionvet -repo $R -prop $id -tier quick -no-evidence > /tmp/benign2.$id.out 2>&1; rc=$?; if [ $rc != 0 ]; then echo "ALARM $id rc=$rc"; grep -E "VIOLATED|UNDECIDED|load failed|panic" /tmp/benign2.$id.out | cut -c1-300 | head -${BENIGN_LINES:-3}; else echo "silent $id"; fi; done
git -C $R checkout -q -- . ; git -C $R clean -fdq
