#!/bin/sh
# Runs every claimed property's check (tier $1, default quick) and prints a summary line each.
cd /verif; . ./env.sh
tier=${1:-quick}
for id in $(bin/scionvet -list); do
  out=$(./check.sh $id $tier 2>&1); rc=$?
  echo "$id rc=$rc $(echo "$out" | grep -c KNOWN-FINDING) known; $(echo "$out" | head -1)"
  [ $rc -ne 0 ] && echo "$out" | grep -E "VIOLATED|UNDECIDED|load failed|panic" | head -5
done
