#!/usr/bin/env python3
"""Compare a `go test -json` log of /repo with the pinned stable_pass list.
usage: suite_check.py <gotest.json>"""
import json, sys
base = json.load(open('/root/.vp/BASELINE.json'))
want = set(base['stable_pass'])
res = {}
for line in open(sys.argv[1], errors='replace'):
    line = line.strip()
    if not line.startswith('{'):
        continue
    try:
        ev = json.loads(line)
    except Exception:
        continue
    if ev.get('Action') in ('pass', 'fail', 'skip') and ev.get('Test'):
        res[ev['Package'] + '::' + ev['Test']] = ev['Action']
missing = sorted(t for t in want if t not in res)
failed = sorted(t for t in want if res.get(t) == 'fail')
print(f"pinned {len(want)}; seen {len(res)}; pinned passing {sum(1 for t in want if res.get(t)=='pass')}; "
      f"pinned failing {len(failed)}; pinned missing {len(missing)}")
for t in failed[:40]:
    print("FAIL", t)
for t in missing[:20]:
    print("MISSING", t)
sys.exit(1 if failed or missing else 0)
