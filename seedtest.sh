#!/bin/sh
# usage: seedtest.sh <property id> <patch.diff> : apply a seeded change to /repo, run the quick
# check, undo the change. Prints the check's verdict lines.
id=$1; patch=$2
cd /repo || exit 2
git diff --quiet || { echo "/repo has uncommitted changes"; exit 2; }
git apply "$patch" || { echo "patch does not apply"; exit 2; }
/verif/check.sh "$id" quick > /tmp/seedtest.$id.out 2>&1; rc=$?
git checkout -- . 
echo "exit=$rc"; grep -E "VIOLATED|UNDECIDED|KNOWN-FINDING|^OK" /tmp/seedtest.$id.out | cut -c1-400
# restore evidence for the unchanged tree
/verif/check.sh "$id" quick > /dev/null 2>&1 || echo "WARNING: check fails on unchanged tree"
