// Demonstration for the C22 finding "SCMP answers to errors raised before the ingress SegID
// update leave with a desynchronized SegID" (harness adapted from the fifth-round seed demo
// seeded/C22-5). A packet travels an up segment against construction direction and reaches the
// router of a transit AS j over an external link. Trigger f22Expired: the info field timestamp
// is two days old, so validateHopExpiry raises the SCMP answer BEFORE
// updateNonConsDirIngressSegID ran; trigger f22WrongDst: the destination IA is the transit AS
// itself (validateSrcDstIA, also before the update; here the answer is otherwise deliverable); the other two triggers raise it afterwards (controls).
// The answer travels back in construction direction and AS j+1 validates its hop field with
// the SegID found in the packet, which must be beta[j+1].
//
// Copy into /repo/router/ and run: go test ./router/ -run TestF22 -count=1

package router

import (
	"crypto/subtle"
	"fmt"
	"net/netip"
	"testing"
	"time"

	"github.com/gopacket/gopacket"
	"github.com/stretchr/testify/assert"
	"github.com/stretchr/testify/require"

	"github.com/scionproto/scion/pkg/addr"
	"github.com/scionproto/scion/pkg/private/util"
	"github.com/scionproto/scion/pkg/scrypto"
	"github.com/scionproto/scion/pkg/slayers"
	"github.com/scionproto/scion/pkg/slayers/path"
	"github.com/scionproto/scion/pkg/slayers/path/scion"
	"github.com/scionproto/scion/private/topology"
)

const (
	f22IfChild  = uint16(1) // towards the next AS in construction direction
	f22IfParent = uint16(2) // towards the previous AS in construction direction
	f22IfPeer   = uint16(3) // peering link of AS 0
)

// f22AS is one AS of the beaconed segment.
type f22AS struct {
	ia   addr.IA
	key  []byte
	hop  path.HopField // the regular hop field this AS put into the beacon
	beta uint16        // accumulator value used when creating hop
}

func f22MAC(t *testing.T, key []byte, segID uint16, ts uint32, hf path.HopField) [path.MacLen]byte {
	t.Helper()
	mac, err := scrypto.InitMac(key)
	require.NoError(t, err)
	return path.MAC(mac, path.InfoField{SegID: segID, Timestamp: ts}, hf, nil)
}

// f22Beacon creates the segment like the beaconing ASes do. It returns the AS
// entries in construction order and the peer hop field of AS 0.
func f22Beacon(t *testing.T, n int, segID uint16, ts uint32) ([]f22AS, path.HopField) {
	t.Helper()
	ases := make([]f22AS, n)
	beta := segID
	for i := range ases {
		as := &ases[i]
		as.ia = addr.MustParseIA(fmt.Sprintf("1-ff00:0:%x", 0x110+i))
		as.key = []byte(fmt.Sprintf("f22_key_of_as_%02d", i))
		as.hop = path.HopField{ExpTime: 63, ConsIngress: f22IfParent, ConsEgress: f22IfChild}
		if i == 0 {
			as.hop.ConsIngress = 0
		}
		if i == n-1 {
			as.hop.ConsEgress = 0
		}
		as.beta = beta
		as.hop.Mac = f22MAC(t, as.key, beta, ts, as.hop)
		beta ^= uint16(as.hop.Mac[0])<<8 | uint16(as.hop.Mac[1])
	}
	// The peer entry of AS 0 chains to the same value as the hop field of AS 1.
	peerHop := path.HopField{ExpTime: 63, ConsIngress: f22IfPeer, ConsEgress: f22IfChild}
	peerHop.Mac = f22MAC(t, ases[0].key, ases[1].beta, ts, peerHop)
	return ases, peerHop
}

type f22Trigger int

const (
	f22Traceroute f22Trigger = iota
	f22UnknownEgress
	f22Expired
	f22WrongDst
)

// f22Packet builds the packet as it arrives at AS j from AS j+1 (on the child
// link), travelling the up segment against construction direction.
func f22Packet(t *testing.T, ases []f22AS, peerHop path.HopField, peering bool, j int,
	ts uint32, trig f22Trigger) []byte {

	t.Helper()
	n := len(ases)

	// Path combination starts the accumulator at the value of the last AS
	// entry (calculateBeta for an up segment). The source AS does not touch
	// it and every router between the source AS and AS j XORed its own MAC at
	// ingress, so AS j receives beta[j+1].
	segID := ases[n-1].beta
	for k := n - 2; k > j; k-- {
		segID ^= uint16(ases[k].hop.Mac[0])<<8 | uint16(ases[k].hop.Mac[1])
	}
	require.Equal(t, ases[j+1].beta, segID)

	var hops []path.HopField
	for i := n - 1; i >= 1; i-- {
		hops = append(hops, ases[i].hop)
	}
	if peering {
		hops = append(hops, peerHop)
	} else {
		hops = append(hops, ases[0].hop)
	}
	// Second segment, in construction direction, somewhere else.
	hops = append(hops,
		path.HopField{ExpTime: 63, ConsIngress: 5, ConsEgress: 6},
		path.HopField{ExpTime: 63, ConsIngress: 7, ConsEgress: 0},
	)
	curr := n - 1 - j
	if trig == f22Traceroute {
		// Against construction direction the ingress alert is the egress flag.
		hops[curr].EgressRouterAlert = true
	}

	dpath := &scion.Decoded{
		Base: scion.Base{
			PathMeta: scion.MetaHdr{
				CurrINF: 0,
				CurrHF:  uint8(curr),
				SegLen:  [3]uint8{uint8(n), 2, 0},
			},
			NumINF:  2,
			NumHops: n + 2,
		},
		InfoFields: []path.InfoField{
			{Peer: peering, ConsDir: false, SegID: segID, Timestamp: ts},
			{Peer: peering, ConsDir: true, SegID: 0x2222, Timestamp: ts},
		},
		HopFields: hops,
	}

	spkt := &slayers.SCION{
		TrafficClass: 0xb8,
		FlowID:       0xdead,
		NextHdr:      slayers.L4UDP,
		PathType:     scion.PathType,
		SrcIA:        ases[n-1].ia,
		DstIA:        addr.MustParseIA("1-ff00:0:f00"),
		Path:         dpath,
	}
	if trig == f22WrongDst {
		// the destination is this transit AS although the path goes on: raised by
		// validateSrcDstIA, before the ingress SegID update
		spkt.DstIA = ases[j].ia
	}
	require.NoError(t, spkt.SetSrcAddr(addr.HostIP(netip.MustParseAddr("10.0.200.100"))))
	require.NoError(t, spkt.SetDstAddr(addr.HostIP(netip.MustParseAddr("10.0.100.100"))))

	buffer := gopacket.NewSerializeBuffer()
	opts := gopacket.SerializeOptions{FixLengths: true, ComputeChecksums: true}
	if trig == f22Traceroute {
		spkt.NextHdr = slayers.L4SCMP
		scmpH := &slayers.SCMP{
			TypeCode: slayers.CreateSCMPTypeCode(slayers.SCMPTypeTracerouteRequest, 0),
		}
		scmpH.SetNetworkLayerForChecksum(spkt)
		scmpP := &slayers.SCMPTraceroute{Identifier: 558, Sequence: 0x100}
		require.NoError(t, gopacket.SerializeLayers(buffer, opts, spkt, scmpH, scmpP))
	} else {
		require.NoError(t, gopacket.SerializeLayers(buffer, opts, spkt,
			gopacket.Payload([]byte("actualpayloadbytes"))))
	}
	return buffer.Bytes()
}

func f22DP(as f22AS, external []uint16) *dataPlane {
	return newDP(
		external,
		map[uint16]topology.LinkType{f22IfChild: topology.Child, f22IfParent: topology.Parent},
		MockConnOpener{},
		nil,
		as.ia,
		nil,
		as.key,
	)
}

func TestF22EarlySCMPErrorKeepsSegIDInSync(t *testing.T) {
	ts := util.TimeToSecs(time.Now())

	for _, peering := range []bool{false, true} {
		for _, trig := range []f22Trigger{f22Traceroute, f22UnknownEgress, f22Expired, f22WrongDst} {
			for n := 3; n <= 6; n++ {
				for j := 1; j <= n-2; j++ {
					name := fmt.Sprintf("peering=%t/trigger=%d/len=%d/as=%d", peering, trig, n, j)
					t.Run(name, func(t *testing.T) {
						f22Check(t, ts, peering, trig, n, j)
					})
				}
			}
		}
	}
}

func f22Check(t *testing.T, ts uint32, peering bool, trig f22Trigger, n, j int) {
	if trig == f22Expired {
		ts -= 2 * 24 * 3600
	}
	ases, peerHop := f22Beacon(t, n, 0x5a17, ts)
	raw := f22Packet(t, ases, peerHop, peering, j, ts, trig)

	// The router of AS j. It owns both external interfaces, except when the
	// parent interface is to be unknown.
	external := []uint16{f22IfChild, f22IfParent}
	if trig == f22UnknownEgress {
		external = []uint16{f22IfChild}
	}
	dp := f22DP(ases[j], external)

	pkt := NewPacket(raw, nil, nil, f22IfChild, 0)
	pkt.Link = dp.interfaces[f22IfChild] // the real, external, link
	require.Equal(t, External, pkt.Link.Scope())

	disp := newPacketProcessor(dp).processPkt(pkt)
	require.Equal(t, pSlowPath, disp)
	if trig == f22Traceroute {
		require.Equal(t, slowPathRouterAlertIngress, pkt.slowPathRequest.spType)
	} else if trig == f22WrongDst {
		require.Equal(t, slowPathType(slayers.SCMPTypeParameterProblem),
			pkt.slowPathRequest.spType)
		require.Equal(t, slayers.SCMPCodeInvalidDestinationAddress, pkt.slowPathRequest.code)
	} else if trig == f22Expired {
		require.Equal(t, slowPathType(slayers.SCMPTypeParameterProblem),
			pkt.slowPathRequest.spType)
		require.Equal(t, slayers.SCMPCodePathExpired, pkt.slowPathRequest.code)
	} else {
		require.Equal(t, slowPathType(slayers.SCMPTypeParameterProblem),
			pkt.slowPathRequest.spType)
		require.Equal(t, slayers.SCMPCodeUnknownHopFieldIngress, pkt.slowPathRequest.code)
	}
	require.NoError(t, newSlowPathProcessor(dp).processPacket(pkt))

	// Parse the SCMP answer that goes back out of the child interface.
	var reply slayers.SCION
	require.NoError(t, reply.DecodeFromBytes(pkt.RawPacket, gopacket.NilDecodeFeedback))
	require.Equal(t, slayers.L4SCMP, reply.NextHdr)
	require.Equal(t, ases[n-1].ia, reply.DstIA)
	rawPath, ok := reply.Path.(*scion.Raw)
	require.True(t, ok)
	info, err := rawPath.GetCurrentInfoField()
	require.NoError(t, err)
	hop, err := rawPath.GetCurrentHopField()
	require.NoError(t, err)

	// The answer is positioned on the hop field of AS j+1, in construction direction.
	next := ases[j+1]
	require.True(t, info.ConsDir)
	require.Equal(t, peering, info.Peer)
	require.Equal(t, uint8(1), rawPath.PathMeta.CurrINF)
	require.Equal(t, uint8(3+j), rawPath.PathMeta.CurrHF)
	require.Equal(t, next.hop.Mac, hop.Mac)

	// THE PROPERTY: the SegID AS j+1 validates its hop field with is the
	// accumulator value it used when it created that hop field.
	assert.Equal(t, next.beta, info.SegID,
		"SegID in SCMP answer (%#04x) is not the construction-time value of AS %d (%#04x)",
		info.SegID, j+1, next.beta)

	// Same thing, as the router of AS j+1 sees it: in construction direction
	// it does not touch the SegID at ingress and verifies the MAC with it.
	expected := f22MAC(t, next.key, info.SegID, info.Timestamp, hop)
	assert.Equal(t, 1, subtle.ConstantTimeCompare(expected[:], hop.Mac[:]),
		"hop field of AS %d fails MAC verification with the SegID of the SCMP answer", j+1)

	// And with the real thing, where AS j+1 is a transit AS as well.
	// (not for the expired path: AS j+1 rejects that answer as expired, rightly)
	if j+1 < n-1 && trig != f22Expired {
		dpNext := f22DP(next, []uint16{f22IfChild, f22IfParent})
		pktNext := NewPacket(pkt.RawPacket, nil, nil, f22IfParent, 0)
		pktNext.Link = dpNext.interfaces[f22IfParent]
		dispNext := newPacketProcessor(dpNext).processPkt(pktNext)
		assert.Equal(t, pForward, dispNext, "router of AS %d does not forward the SCMP answer "+
			"(slow path request: %+v)", j+1, pktNext.slowPathRequest)
		assert.Equal(t, f22IfChild, pktNext.egress)
	}
}
