package addr_test

import (
	"testing"

	"github.com/stretchr/testify/assert"
	"github.com/stretchr/testify/require"

	"github.com/scionproto/scion/pkg/addr"
)

// WithSeparator documents: "In case of the empty string, the ':' is used."
// On the unfixed tree the empty separator is used verbatim: the AS is formatted
// as "ff000000110"-like text without separators and does not parse back.
func TestEmptySeparatorFallsBackToColon(t *testing.T) {
	ia := addr.MustParseIA("1-ff00:0:110")
	s := addr.FormatIA(ia, addr.WithSeparator(""))
	assert.Equal(t, "1-ff00:0:110", s)
	back, err := addr.ParseFormattedIA(s, addr.WithSeparator(""))
	require.NoError(t, err)
	assert.Equal(t, ia, back)
}
