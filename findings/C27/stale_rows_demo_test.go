package sqlite

import (
	"context"
	"testing"
	"time"

	"github.com/stretchr/testify/require"

	"github.com/scionproto/scion/pkg/segment"
	"github.com/scionproto/scion/pkg/slayers/path"
	"github.com/scionproto/scion/private/pathdb"
	"github.com/scionproto/scion/private/pathdb/query"
	"github.com/scionproto/scion/private/storage/db"
	"github.com/scionproto/scion/private/storage/path/dbtest"
)

// After the only stored segment (type up, hidden-path group 7) has expired and was
// cleaned up, a DIFFERENT segment is inserted as a core segment in group 0. A query
// for up segments, or for group 7, must return nothing: the database is a map from
// segment id to (segment, types, groups), and the expired entry is gone.
func TestExpiredSegmentLeavesNothingBehind(t *testing.T) {
	pdb, err := New("stale_rows_demo", &db.SqliteConfig{InMemory: true})
	require.NoError(t, err)
	defer pdb.Close()
	ctx, cancel := context.WithTimeout(context.Background(), 5*time.Second)
	defer cancel()

	old, _ := dbtest.AllocPathSegment(t, []uint64{0, 5, 2, 3, 6, 3, 1, 0}, 10)
	_, err = pdb.InsertWithHPGroupIDs(ctx, &segment.Meta{Segment: old, Type: segment.TypeUp}, []uint64{7})
	require.NoError(t, err)
	n, err := pdb.DeleteExpired(ctx, time.Unix(20, 0).Add(path.ExpTimeToDuration(63)))
	require.NoError(t, err)
	require.Equal(t, 1, n)

	fresh, _ := dbtest.AllocPathSegment(t, []uint64{0, 4, 2, 3, 1, 3, 2, 0}, 1000)
	st, err := pdb.InsertWithHPGroupIDs(ctx, &segment.Meta{Segment: fresh, Type: segment.TypeCore}, []uint64{0})
	require.NoError(t, err)
	require.Equal(t, pathdb.InsertStats{Inserted: 1}, st)

	res, err := pdb.Get(ctx, &query.Params{SegTypes: []segment.Type{segment.TypeUp}})
	require.NoError(t, err)
	require.Empty(t, res, "no up segment is stored any more")
	res, err = pdb.Get(ctx, &query.Params{HPGroupIDs: []uint64{7}})
	require.NoError(t, err)
	require.Empty(t, res, "no segment of hidden-path group 7 is stored any more")
}
