// Copyright 2025 SCION Association
//
// Licensed under the Apache License, Version 2.0 (the "License");
// you may not use this file except in compliance with the License.
// You may obtain a copy of the License at
//
//   http://www.apache.org/licenses/LICENSE-2.0
//
// Unless required by applicable law or agreed to in writing, software
// distributed under the License is distributed on an "AS IS" BASIS,
// WITHOUT WARRANTIES OR CONDITIONS OF ANY KIND, either express or implied.
// See the License for the specific language governing permissions and
// limitations under the License.

package trust_test

import (
	"context"
	"crypto"
	"crypto/ecdsa"
	"crypto/elliptic"
	"crypto/rand"
	"crypto/x509"
	"path/filepath"
	"testing"
	"time"

	"github.com/golang/mock/gomock"
	"github.com/stretchr/testify/assert"
	"github.com/stretchr/testify/require"

	"github.com/scionproto/scion/pkg/addr"
	"github.com/scionproto/scion/pkg/private/xtest"
	"github.com/scionproto/scion/pkg/scrypto/cppki"
	"github.com/scionproto/scion/private/trust"
	"github.com/scionproto/scion/private/trust/mock_trust"
)

// A signer generated in the grace period must not outlive the ACTIVE TRC either:
// its expiry is the earliest of chain expiry, active TRC validity, grace-period
// end and predecessor validity. Here the active TRC is valid for 2 minutes only
// while its grace period is 5 minutes (nothing bounds the grace period by the
// validity), the predecessor and the chain live longer.
func TestGraceSignerBoundedByActiveTRC(t *testing.T) {
	dir := genCrypto(t)
	ia := addr.MustParseIA("1-ff00:0:110")
	chain := xtest.LoadChain(t, filepath.Join(dir, "certs/ISD1-ASff00_0_110.pem"))
	key := loadKey(t, filepath.Join(dir, "ISD1/ASff00_0_110/crypto/as/cp-as.key"))
	now := time.Now()
	pred := xtest.LoadTRC(t, filepath.Join(dir, "ISD1/trcs/ISD1-B1-S1.trc"))
	active := xtest.LoadTRC(t, filepath.Join(dir, "ISD1/trcs/ISD1-B1-S1.trc"))
	active.TRC.ID.Serial = 2
	active.TRC.Validity.NotBefore = now
	active.TRC.Validity.NotAfter = now.Add(2 * time.Minute)
	active.TRC.GracePeriod = 5 * time.Minute
	roots, err := active.TRC.RootCerts()
	require.NoError(t, err)
	newRoot, err := ecdsa.GenerateKey(elliptic.P256(), rand.Reader)
	require.NoError(t, err)
	for _, root := range roots {
		root.PublicKey = newRoot.Public()
	}
	mctrl := gomock.NewController(t)
	ring := mock_trust.NewMockKeyRing(mctrl)
	ring.EXPECT().PrivateKeys(gomock.Any()).Return([]crypto.Signer{key}, nil)
	db := mock_trust.NewMockDB(mctrl)
	db.EXPECT().SignedTRC(ctxMatcher{}, cppki.TRCID{ISD: 1}).Return(active, nil)
	db.EXPECT().SignedTRC(ctxMatcher{}, cppki.TRCID{ISD: 1, Base: 1, Serial: 1}).Return(pred, nil)
	db.EXPECT().Chains(gomock.Any(), chainQueryMatcher{ia: ia, skid: chain[0].SubjectKeyId}).
		Return([][]*x509.Certificate{chain}, nil)
	signers, err := trust.SignerGen{IA: ia, DB: db, KeyRing: ring}.Generate(context.Background())
	require.NoError(t, err)
	require.Len(t, signers, 1)
	require.True(t, signers[0].InGrace)
	assert.True(t, signers[0].Expiration.Equal(active.TRC.Validity.NotAfter),
		"signer expiry %s, want the active TRC's expiry %s (grace end %s)",
		signers[0].Expiration, active.TRC.Validity.NotAfter, active.TRC.GracePeriodEnd())
}
