package scion_test

import (
	"bytes"
	"testing"

	"github.com/scionproto/scion/pkg/slayers/path/scion"
)

// A forwarded packet whose path carries non-zero reserved bits: the write-back of
// the meta header (IncPath), of the current info field (SetInfoField) and of the
// current hop field (SetHopField) clears them, although the router is only
// supposed to change CurrINF/CurrHF, the SegID and a consumed router alert.
func TestReservedBitsSurviveWriteBack(t *testing.T) {
	raw := make([]byte, 4+8+2*12)
	// CurrINF=0 CurrHF=0 RSV=0x2A SegLen={2,0,0}
	raw[0], raw[1], raw[2], raw[3] = 0x00, 0x2A<<2>>4|0x00, 0x00, 0x00
	raw[1] = 0xA8 // RSV bits 18..23 -> byte 1 bits 2..7 = 101010
	raw[2] = 0x20 // SegLen[0]=2 -> bits 12..17: 000010 -> byte1 bits0-1 =00, byte2 bits 4-7 = 0010
	raw[4] = 0xFC | 0x01 // info field: reserved flag bits set, ConsDir
	raw[5] = 0x5A        // info field reserved byte
	raw[12] = 0xFC       // hop field 0: reserved flag bits set
	p := &scion.Raw{}
	if err := p.DecodeFromBytes(raw); err != nil {
		t.Fatal(err)
	}
	orig := append([]byte(nil), raw...)
	inf, err := p.GetInfoField(0)
	if err != nil {
		t.Fatal(err)
	}
	if err := p.SetInfoField(inf, 0); err != nil { // unchanged info field written back
		t.Fatal(err)
	}
	hf, err := p.GetHopField(0)
	if err != nil {
		t.Fatal(err)
	}
	if err := p.SetHopField(hf, 0); err != nil { // unchanged hop field written back
		t.Fatal(err)
	}
	if err := p.IncPath(); err != nil {
		t.Fatal(err)
	}
	got := p.Raw
	// expected: only CurrHF changed (byte 0 low 6 bits: 0 -> 1)
	want := append([]byte(nil), orig...)
	want[0] = 0x01
	if !bytes.Equal(got, want) {
		t.Fatalf("bytes changed beyond the mutable path state:\n got  %x\n want %x", got, want)
	}
}
