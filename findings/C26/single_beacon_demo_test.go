package beacon_test

import (
	"context"
	"testing"

	"github.com/golang/mock/gomock"

	"github.com/scionproto/scion/control/beacon"
	"github.com/scionproto/scion/pkg/private/xtest/graph"
)

// BestSetSize: 1 is a legal policy value (policy validation does not reject it);
// with more than one candidate the selection must return exactly one of them.
// On the unfixed tree this panics with "index out of range [0] with length 0"
// (result[0] of an empty result slice), which takes the control service down.
func TestSelectSingleBeacon(t *testing.T) {
	mctrl := gomock.NewController(t)
	g := graph.NewDefaultGraph(mctrl)
	stub := graph.If_111_A_112_X
	bs := []beacon.Beacon{
		testBeacon(g, graph.If_120_X_111_B, stub),
		testBeacon(g, graph.If_130_B_120_A, graph.If_120_X_111_B, stub),
	}
	got := beacon.DefaultSelectionAlgorithm().SelectBeacons(context.Background(), bs, 1)
	if len(got) != 1 {
		t.Fatalf("expected one beacon, got %d", len(got))
	}
}
