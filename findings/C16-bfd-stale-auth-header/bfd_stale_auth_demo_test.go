// Demonstration for the C16 defect "stale BFD authentication header".
// Copy into /repo/router/ (package router) and run
//   go test ./router/ -run TestBFDStaleAuthHeaderDemo -count=1
// It fails on the tree before the "fix:" commit and passes after it.
package router

import (
	"testing"
	"time"

	"github.com/gopacket/gopacket"
	"github.com/gopacket/gopacket/layers"

	"github.com/scionproto/scion/router/bfd"
)

type bfdDemoLink struct {
	MockLink
	s *bfd.Session
}

func (l *bfdDemoLink) BFDSession() *bfd.Session { return l.s }

func bfdDemoBytes(t *testing.T, auth bool) []byte {
	m := &layers.BFD{
		Version:               1,
		State:                 layers.BFDStateDown,
		DetectMultiplier:      3,
		MyDiscriminator:       7,
		DesiredMinTxInterval:  1000000,
		RequiredMinRxInterval: 1000000,
	}
	if auth {
		m.AuthPresent = true
		m.AuthHeader = &layers.BFDAuthHeader{
			AuthType: layers.BFDAuthTypePassword,
			KeyID:    1,
			Data:     []byte("secret"),
		}
	}
	b := gopacket.NewSerializeBuffer()
	if err := m.SerializeTo(b, gopacket.SerializeOptions{FixLengths: true}); err != nil {
		t.Fatal(err)
	}
	return append([]byte(nil), b.Bytes()...)
}

// accepted reports whether processBFD handed the message to the session. The session's
// receive queue is unbuffered and nobody reads it, so an accepted message blocks.
func bfdDemoAccepted(p *scionPacketProcessor, data []byte) bool {
	done := make(chan struct{})
	go func() {
		p.processBFD(data)
		close(done)
	}()
	select {
	case <-done:
		return false // returned at once: discarded
	case <-time.After(300 * time.Millisecond):
		return true // blocked on the session's queue: accepted
	}
}

func TestBFDStaleAuthHeaderDemo(t *testing.T) {
	legit := bfdDemoBytes(t, false)
	poison := bfdDemoBytes(t, true)

	newProc := func() *scionPacketProcessor {
		p := &scionPacketProcessor{}
		p.pkt = &Packet{Link: &bfdDemoLink{s: &bfd.Session{}}}
		return p
	}

	// control: a legitimate packet is accepted by a fresh processor
	if !bfdDemoAccepted(newProc(), legit) {
		t.Fatal("control: legitimate BFD packet discarded by a fresh processor")
	}
	// one packet with the Auth bit (discarded, as authentication is unsupported) ...
	p := newProc()
	if bfdDemoAccepted(p, poison) {
		t.Fatal("authenticated BFD packet accepted")
	}
	// ... must not make the same processor discard the peer's later legitimate packets
	if !bfdDemoAccepted(p, legit) {
		t.Fatal("legitimate BFD packet discarded after one packet with the Auth bit: " +
			"the session can never come Up again through this processor")
	}
}
