#!/bin/sh
# usage: store2.sh <id> "<caught by>" "<history>"  - stores a verified second-round seed from /tmp/wt/S<id>-out
id=$1; caught="$2"; hist="$3"; d=/verif/seeded/$id-${RND:-2}; mkdir -p $d
cp /tmp/wt/${PFX:-S}$id-out/patch.diff /tmp/wt/${PFX:-S}$id-out/demo_path.txt /tmp/wt/${PFX:-S}$id-out/verify.log $d/; cp /tmp/wt/${PFX:-S}$id-out/README.md $d/README.agent.md; cp /tmp/wt/${PFX:-S}$id-out/*_test.go $d/
RND=${RND:-2} python3 - "$id" "$caught" "$hist" <<'PY'
import json,sys,re,os
id,caught,hist=sys.argv[1:4]
rnd=os.environ.get('RND','2')
log=open(f'/verif/seeded/{id}-{rnd}/verify.log').read()
rc=dict(re.findall(r'^(rc_\w+)=(\d+)',log,re.M))
m={"property":id,"round":int(rnd),"origin":"independent sub-agent, round "+rnd+" (property text + scratch worktree only, asked to avoid the obvious mechanisms)",
 "change":"see README.agent.md","demo":open(f'/verif/seeded/{id}-{rnd}/demo_path.txt').read().strip(),
 "verified":{"with_change":"FAIL" if rc.get('rc_with')=='1' else rc.get('rc_with'),"without_change":"ok" if rc.get('rc_without')=='0' else rc.get('rc_without'),"existing_tests_with_change":"ok (verify.log)" if rc.get('rc_existing')=='0' else rc.get('rc_existing')},
 "caught_by":caught,"history":hist}
json.dump(m,open(f'/verif/seeded/{id}-{rnd}/meta.json','w'),indent=1)
PY
git -C /repo worktree remove --force /tmp/wt/${PFX:-S}$id; rm -rf /tmp/wt/${PFX:-S}$id-out/demo_hold
