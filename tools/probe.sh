#!/bin/sh
# usage: probe.sh <id> <file> <python-old> <python-new> : one-off mutation probe on the scratch worktree
id=$1; f=$2; old=$3; new=$4; R=/tmp/wt/chk1
cd $R; git checkout -q -- . 
python3 - "$f" "$old" "$new" <<'PY' || exit 2
import sys
f,old,new=sys.argv[1:4]
s=open(f).read()
if s.count(old)!=1: print("old text occurs",s.count(old),"times"); sys.exit(2)
open(f,'w').write(s.replace(old,new))
PY
. /verif/env.sh
go build ./$(dirname $f)/ 2>&1 | head -3
cd /verif; bin/scionvet -repo $R -prop $id -tier quick -no-evidence > /tmp/probe.out 2>&1; rc=$?
git -C $R checkout -q -- .
echo "probe $id rc=$rc $(grep -m1 -E 'VIOLATED|UNDECIDED' /tmp/probe.out | cut -c1-160)"
