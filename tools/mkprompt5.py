import json,sys
pid=sys.argv[1]
for l in open('/verif/properties.jsonl'):
    p=json.loads(l)
    if p['id']==pid: break
wt=f"/tmp/wt/V{pid}"
out=f"/tmp/wt/V{pid}-out"
print(f"""You are helping evaluate how well verification tooling detects subtle regressions in the Go repository scionproto/scion (SCION inter-domain network architecture). You have your own scratch git worktree of the repository at {wt} (already created, clean, at the pinned commit). Work ONLY inside {wt} and write your deliverables to {out}/ (create it). Never touch /repo or /verif, never commit, never push.

THE PROPERTY (this is all you need to know about what must be broken):

id: {p['id']}
title: {p['title']}
statement: {p['statement']}
quantifier: {json.dumps(p['quantifier'])}
why existing tests cannot settle it: {p['why_tests_cant']}
anchors (where the mechanism lives): {json.dumps(p['anchors'])}

DIVERSITY HINT: four other people have already broken this property: in its central check, in the mechanisms listed in the anchors, and in one helper next to them. Go somewhere ELSE: a helper function that the anchored functions rely on, a sibling implementation of the same interface, a constructor / configuration / start-up path that sets the state the mechanism later trusts, an error or retry path, state that is kept between two requests or packets, an encoding / decoding / formatting step whose two sides must agree, a boundary value of a counter, length, index or time, or a secondary clause of the statement that is easy to overlook. The change must still genuinely violate the property AS STATED.\n\nYOUR TASK: craft ONE realistic source change (the kind of bug a developer could plausibly introduce in a refactor, optimisation or feature change) to the non-test Go code in {wt} that BREAKS this property, while
  (a) the repository still compiles:  cd {wt} && go build -mod=mod ./...   (at least for the packages you touched and everything importing them),
  (b) the EXISTING unit tests still pass, unedited: run  cd {wt} && go test -mod=mod -vet=off -count=1 <packages>  for every package you touched and the packages that directly depend on the changed behaviour (e.g. ./router/... ./pkg/slayers/... ./control/... ./private/... as applicable). Do not edit, delete or skip any existing test.
  (c) the breakage needs something SPECIFIC to manifest — a particular input shape, an unusual configuration, a particular interleaving or multi-step sequence, a fault at a particular point, or two cooperating sites that each look fine alone — NOT something ordinary use or the existing tests would expose at once. Prefer subtle semantic changes (a check skipped for one path shape, a wrong field used in one branch, an off-by-one at a boundary, a condition weakened, a missing re-validation, a resource not returned on one path) over deleting whole functions.
  (d) you provide a DEMONSTRATION: a new Go test file (or small program) that FAILS with your change applied and PASSES on the unchanged code, showing the property violation concretely (the failing input/sequence). Put new test files next to the code they test so they can use unexported identifiers if needed; the demo must not modify existing files.

The sandbox is offline. Go toolchain works as is (plain `go`, use -mod=mod). Tests of a single package typically take 10-60 s; keep your test runs targeted. 16 cores are shared with other jobs, so do not run the whole test suite at once.

DELIVERABLES in {out}/ :
  1. patch.diff  — output of `git -C {wt} diff` containing ONLY the breaking change to non-test code (not the demo).
  2. the demo test file(s), plus demo_path.txt naming where each demo file must be placed relative to the repo root.
  3. README.md — what the change is, why it breaks the property, what specific input/sequence/configuration is needed to manifest it, the exact commands you ran and their results: (i) build ok with change, (ii) existing tests of affected packages pass with change (list packages), (iii) demo FAILS with change, (iv) demo PASSES without the change (NEVER use `git stash` — the stash is shared between worktrees and collides with other jobs; instead save `git diff` to patch.diff, `git apply -R patch.diff`, run the demo, then `git apply patch.diff` again).
When done, leave the worktree with your change and demo applied (uncommitted). In your final answer, summarise the change in 5-10 lines and state clearly whether all of (a)-(d) were confirmed.
""")
