import json,sys
pid=sys.argv[1]
for l in open('/verif/properties.jsonl'):
    p=json.loads(l)
    if p['id']==pid: break
wt=f"/tmp/wt/R{pid}"
out=f"/tmp/wt/R{pid}-out"
print(f"""You are helping evaluate whether verification tooling for the Go repository scionproto/scion (SCION inter-domain network architecture) raises FALSE alarms on harmless code changes. You have your own scratch git worktree of the repository at {wt} (already created, clean, at the pinned commit). Work ONLY inside {wt} and write your deliverables to {out}/ (create it). Never touch /repo or /verif, never commit, never push, never use `git stash` (it is shared between worktrees).

THE PROPERTY the code currently satisfies and must KEEP satisfying:

id: {p['id']}
title: {p['title']}
statement: {p['statement']}
quantifier: {json.dumps(p['quantifier'])}
anchors (where the mechanism lives): {json.dumps(p['anchors'])}

YOUR TASK: produce FOUR independent, realistic, BEHAVIOUR-PRESERVING changes to the non-test Go code of the anchored mechanisms — the kind of clean-up, refactor or harmless feature work a maintainer does every week — such that after each change the property above still holds for every input exactly as before (same results, same errors on the same inputs, same side effects in the same order where order is observable). Each change must touch the functions that implement the property (not some unrelated corner), and the four must be of DIFFERENT kinds. Choose from, for example:
  1. renaming local variables, parameters, receivers or unexported helpers/fields;
  2. extracting a block into a new helper function or method, or inlining a small helper into its caller;
  3. restructuring control flow without changing meaning: inverting an `if` with early return, turning an if-chain into a switch or vice versa, changing a loop form (range <-> index, forward <-> backward where the result is identical), merging/splitting conditions (`a && b` <-> nested ifs), De-Morgan rewrites, replacing `!(x < y)` by `x >= y`;
  4. introducing named constants for literals, replacing a literal computation by an equivalent one (e.g. `x*8` <-> `x<<3`, `len(b) < 4` <-> `len(b) <= 3`), using a temporary variable for a repeated expression, or removing one;
  5. adding logging, metrics, comments, doc strings, a new unrelated field or option, an additional (redundant but harmless) sanity check or a new exported accessor;
  6. changing error message texts or wrapping (serrors.New <-> serrors.Wrap with the same sentinel), reordering declarations in the file.
Do NOT make cosmetic-only changes (pure whitespace/comment) for more than one of the four. Make them substantial enough that a tool which matches on exact code shape, identifier names or statement order would notice, yet clearly harmless to a human reviewer.

For EACH change k = 1..4:
  (a) start from the clean tree (`git -C {wt} checkout -- .` and remove files you added), make the change,
  (b) make sure it compiles: cd {wt} && go build -mod=mod <touched packages and their importers>  (plain `go`, always -mod=mod; the sandbox is offline),
  (c) run the EXISTING tests of the touched packages, unedited: go test -mod=mod -vet=off -count=1 <packages>  — they must pass (router tests are timing sensitive under load: re-run once before concluding a failure is yours),
  (d) save `git -C {wt} diff` as {out}/r<k>.diff (new files must be included: use `git add -N <file>` before diffing),
  (e) write two or three lines in {out}/README.md: what kind of change it is, which functions it touches, and why behaviour is unchanged.
If you have any doubt that a change is behaviour-preserving on some input (for example it changes which of two errors is returned first), do not deliver it; pick another.

16 cores are shared with other jobs: keep test runs targeted to the touched packages. When done leave the worktree clean. In your final answer list the four changes in one line each.
""")
