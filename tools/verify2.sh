#!/bin/bash
# usage: verify2.sh <id> <pkg> <demo-run-pattern> [extra pkgs for existing tests...]
id=$1; pkg=$2; pat=$3; shift 3
wt=/tmp/wt/$id; out=/tmp/wt/$id-out
cd $wt || exit 2
log=$out/verify.log; : > $log
echo "== diff stat" >> $log; git diff --stat >> $log
echo "== with change: demo (expect FAIL)" >> $log
go test -mod=mod -vet=off -count=1 -run "$pat" $pkg >> $log 2>&1; echo "rc_with=$?" >> $log
git apply -R $out/patch.diff || { echo "cannot reverse" >> $log; exit 2; }
echo "== without change: demo (expect ok)" >> $log
go test -mod=mod -vet=off -count=1 -run "$pat" $pkg >> $log 2>&1; echo "rc_without=$?" >> $log
git apply $out/patch.diff
mkdir -p $out/demo_hold
for f in $(git status --short | grep '^??' | awk '{print $2}'); do mkdir -p $out/demo_hold/$(dirname $f); mv $f $out/demo_hold/$f; done
echo "== existing tests with change (expect ok)" >> $log
rc=1
for try in 1 2 3; do
  go test -mod=mod -vet=off -count=1 $pkg "$@" >> $log 2>&1; rc=$?
  echo "try$try rc=$rc" >> $log
  [ $rc = 0 ] && break
done
echo "rc_existing=$rc" >> $log
(cd $out/demo_hold && find . -type f | while read f; do mv $f $wt/$f; done)
grep -E "^rc_|^try|^FAIL|^ok|^--- FAIL" $log | head -40
