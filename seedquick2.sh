#!/bin/sh
# usage: seedquick2.sh <property id> <patch.diff> : like seedquick.sh but on the scratch worktree
# (create the scratch worktree first: git -C /repo worktree add --detach /tmp/wt/chk1 HEAD; remove it afterwards with git -C /repo worktree remove --force /tmp/wt/chk1)
# /tmp/wt/chk1 (so that it can run while /repo is in use by a bulk replay)
id=$1; patch=$2; R=/tmp/wt/chk1
cd $R || exit 2
git checkout -q -- . ; git clean -fdq
git apply "$patch" || { echo "patch does not apply"; exit 2; }
cd /verif; . ./env.sh
bin/scionvet -repo $R -prop "$id" -tier quick -no-evidence > /tmp/seedquick2.$id.out 2>&1; rc=$?
git -C $R checkout -q -- .
echo "exit=$rc"; grep -E "VIOLATED|UNDECIDED|load failed" /tmp/seedquick2.$id.out | cut -c1-300 | head -3
