#!/bin/sh
# usage: check.sh <property id> <quick|thorough>
# Rebuilds the checker if its sources changed, then analyses /repo's working tree.
cd /verif || exit 2
. ./env.sh
if [ ! -x bin/scionvet ] || [ -n "$(find checker -name '*.go' -newer bin/scionvet -print -quit)" ]; then
  (cd checker && go build -o ../bin/scionvet.$$ . && mv ../bin/scionvet.$$ ../bin/scionvet) || exit 2
fi
exec bin/scionvet -prop "$1" -tier "${2:-quick}"
