#!/bin/sh
# usage: benigntest.sh <patch> [ids...]   - applies a behaviour-preserving patch to /repo, runs the
# checks (all claimed ones by default) without writing evidence, prints every check that is not
# silent, reverts /repo. A report here is a FALSE ALARM of the checker (or the patch is not benign).
cd /verif; . ./env.sh
p=$1; shift
ids="$*"; [ -z "$ids" ] && ids=$(bin/scionvet -list)
git -C /repo apply "$p" || { echo "patch does not apply: $p"; exit 2; }
for id in $ids; do echo $id; done | xargs -P 8 -I{} sh -c 'bin/scionvet -prop {} -tier quick -no-evidence > /tmp/benign.{}.out 2>&1; echo "{} $?"' | sort > /tmp/benign.rcs
git -C /repo checkout -- . ; git -C /repo clean -fdq -- . 2>/dev/null
bad=0
while read id rc; do
  if [ "$rc" != 0 ]; then bad=$((bad+1)); echo "ALARM $id rc=$rc"; grep -E "VIOLATED|UNDECIDED|load failed|panic" /tmp/benign.$id.out | cut -c1-330 | head -${BENIGN_LINES:-4}; fi
done < /tmp/benign.rcs
echo "benigntest $(basename $p): $(wc -l < /tmp/benign.rcs) checks, $bad not silent"
rm -f /tmp/benign.*.out
