#!/usr/bin/env python3
"""Validate MANIFEST.json and evidence files against the schemas (python3-vt)."""
import json, sys, glob, jsonschema
m = json.load(open('/verif/MANIFEST.json'))
jsonschema.validate(m, json.load(open('/root/.vp/MANIFEST.schema.json')))
ids = {json.loads(l)['id'] for l in open('/verif/properties.jsonl')}
claimed = {c['property_id'] for c in m['checks']}
na = {n['property_id'] for n in m.get('not_applicable', [])}
assert claimed | na == ids, (ids - claimed - na, (claimed | na) - ids)
assert not (claimed & na)
es = json.load(open('/root/.vp/EVIDENCE.schema.json'))
bad = 0
for f in sorted(glob.glob('/verif/evidence/C*.json')):
    try:
        jsonschema.validate(json.load(open(f)), es)
    except Exception as e:
        print("INVALID", f, str(e)[:200]); bad += 1
print("manifest ok: %d claimed, %d not applicable; evidence files invalid: %d" % (len(claimed), len(na), bad))
sys.exit(1 if bad else 0)
