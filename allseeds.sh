#!/bin/sh
# Applies every stored seed (breaking change) in turn and requires the property's check to report it.
# Fast form: no evidence is written and the unchanged tree is not re-checked after each seed
# (use seedtest.sh for a single seed with evidence).
cd /verif; . ./env.sh
miss=0; n=0
for d in seeded/C*/; do id=$(basename $d | cut -c1-3); n=$((n+1))
  out=$(./seedquick.sh $id /verif/$d/patch.diff 2>&1); rc=$(echo "$out" | grep -o "exit=[0-9]*" | head -1)
  echo "$(basename $d) $rc $(echo "$out" | grep -m1 -E "VIOLATED|UNDECIDED" | cut -c1-160)"
  [ "$rc" = "exit=1" ] || miss=$((miss+1))
done
echo "allseeds: $n seeds, $miss not reported"
