#!/bin/sh
# Applies every stored behaviour-preserving variant (benign/<id>/r*.diff) and runs the checks of
# the property it was written for (and of the properties that share its functions, if given in
# benign/<id>/also). Every non-silent check is a false alarm of the machinery.
cd /verif; . ./env.sh
total=0; alarms=0
for d in benign/C*/; do id=$(basename $d)
  ids="$id"; [ -f $d/also ] && ids="$ids $(cat $d/also)"
  for p in $d/r*.diff; do
    total=$((total+1))
    out=$(BENIGN_LINES=2 ./benigntest.sh /verif/$p $ids 2>&1)
    if echo "$out" | grep -q "^ALARM"; then alarms=$((alarms+1)); echo "$id $(basename $p): $(echo "$out" | grep -A2 '^ALARM' | cut -c1-260 | tr '\n' ' ')"; else echo "$id $(basename $p): silent"; fi
  done
done
echo "allbenign: $total variants, $alarms with a false alarm"
